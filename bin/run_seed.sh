#!/bin/bash
# run_seed.sh <seed name e.g. C01-A> <check id> [tier] — applies the seeded change to /repo, runs the check, reverts.
S=/verif/seeded/$1; C=$2; T=${3:-quick}
git -C /repo diff --quiet || { echo "/repo dirty"; exit 2; }
git -C /repo apply $S/patch.diff || { echo "$1 apply failed"; exit 3; }
cd /verif && bin/vcheck $C $T > /tmp/seedrun.$1.$C.log 2>&1; RC=$?
git -C /repo checkout -- . ; git -C /repo clean -fdq -- pkg cmd 2>/dev/null
V=$(grep -c '^VIOLATION' /tmp/seedrun.$1.$C.log)
echo "$1 check=$C tier=$T exit=$RC violations_lines=$V $(grep '^VIOLATION' /tmp/seedrun.$1.$C.log | head -2 | sed 's/.*sig=//' | tr '\n' ';' | cut -c1-200)"
