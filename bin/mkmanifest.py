#!/usr/bin/env python3
# Regenerates /verif/MANIFEST.json from the table below. Edit here, not the JSON.
import json, subprocess
IMPLEMENTED = "C01 C02 C03 C04 C05 C06 C07 C08 C09 C10 C11 C12 C13 C14 C15 C16 C17 C18 C19 C20".split()
NOT_BUILT_REASON = "check not built yet in this work session (planned in DESIGN.md; not a claim that the technique cannot apply)"
P = {
 "C01": ("exploration", "reference-model monitor (sort+dedupe model over encoding/csv-parsed input) on generated CSV x configuration workloads", "4/C01"),
 "C02": ("exploration", "metamorphic monitor: table sum invariance across permutations/run sizes/workers/delimiters and sensitivity to single mutations", "4/C02"),
 "C03": ("exploration", "structural invariant monitor (CheckTable) over every table emitted by every producer", "4/C03"),
 "C04": ("exploration", "reference-model monitor over the diff event stream (set-difference model keyed by primary key)", "4/C04"),
 "C05": ("exploration", "cell-level reference merge model compared with Merger/RowCollector output and CLI merge", "4/C05"),
 "C06": ("exploration", "round-trip and content-address monitors over generated object values incl. 16-bit boundary lengths", "4/C06"),
 "C07": ("exploration", "source/destination store snapshot comparison + ordering monitor over the recorded packfile object sequence", "4/C07"),
 "C08": ("exploration", "graph-model oracle over ClosedSetsFinder outputs with a counted-store-reads work bound", "4/C08"),
 "C09": ("exploration", "before/after repository snapshots around real fetch/push/pull against an in-process reference server", "4/C09"),
 "C10": ("exploration", "ref/reflog trace monitor around fetch/push/pull/merge commands with a graph-model ancestry oracle", "4/C10"),
 "C11": ("exploration", "graph-model oracle, exhaustive over all small DAG shapes x timestamp modes, sampled beyond", "4/C11"),
 "C12": ("exploration", "key-set and read-back monitors before/after prune against graph-model reachability", "4/C12"),
 "C13": ("fault_enumeration", "crash/fault injection at every persistent write (verifhook BeforeWrite in the real CLI; recording stores in-process) + repository invariant monitor + re-run equivalence", "4/C13"),
 "C14": ("fault_enumeration", "fault injection at every store call of transaction Commit/Discard + atomicity oracle over heads, reflogs, status", "4/C14"),
 "C15": ("exploration", "step-by-step reference-model monitor (map + per-name logs); porcupine linearizability check of concurrent histories in thorough", "4/C15"),
 "C16": ("exploration", "Go race detector over pipelines with seeded yield injection + sequential-equivalence oracle + error-injection termination monitor", "4/C16"),
 "C17": ("exploration", "hostile-input monitor: structured mutation of valid encodings per decoder entry point; panic/death/allocation/read-count oracles under an address-space limit", "4/C17"),
 "C18": ("exploration", "differential monitor: decode under adversarial chunking readers vs whole-buffer decode", "4/C18"),
 "C19": ("exploration", "reference-model monitor (sort+dedupe) over both sorter outputs at forced spill counts + temp-dir monitor", "4/C19"),
 "C20": ("exploration", "reference-model monitor (Go map) over Add/Flush/reopen programs + raw-file structural invariants after every flush", "4/C20"),
}
TEXT = {
 "C20": ("Every flush/reopen point of ~1000 (quick) / 20000 (thorough) generated programs is compared against a map for the whole hash universe, and the file's order and fan-out are re-derived from raw bytes. Held-on-observed, not a proof; the right level because the state space (file contents x pending batch) is unbounded but small universes force the interesting collisions.",
         "Go toolchain; fresh slice per Add (RowCollector's usage); os.File and misc.Buffer semantics"),
}
def text(pid):
    if pid in TEXT: return TEXT[pid]
    return ("Runtime monitoring of the real code under generated and hostile workloads; verdict is 'held on the executions observed' (see DESIGN.md section %s)." % P[pid][2],
            "Go toolchain and race detector; harness reference models; see DESIGN.md")
checks, na = [], []
for pid in sorted(P):
    lvl, tech, ref = P[pid]
    if pid in IMPLEMENTED:
        t, note = text(pid)
        checks.append({
            "property_id": pid,
            "quick_cmd": "bin/vcheck %s quick" % pid,
            "thorough_cmd": "bin/vcheck %s thorough" % pid,
            "evidence_file": "/verif/evidence/%s.json" % pid,
            "replay_cmd_template": "bin/vcheck %s --replay {path}" % pid,
            "engine": "vcheck",
            "level_claimed": {"category": lvl, "text": t, "design_ref": "DESIGN.md §" + ref},
            "level_note": note,
            "technique": "runtime monitoring: " + tech,
        })
    else:
        na.append({"property_id": pid, "reason": NOT_BUILT_REASON})
commits = subprocess.run("git -C /repo log --format=%h --grep '^verif:' ", shell=True, capture_output=True, text=True).stdout.split()
m = {
 "version": 1,
 "setup_cmd": "bin/vcheck setup",
 "hooks": {
   "guard": "verif (Go build tag)",
   "enable": "go build -tags verif (the harness module replaces github.com/wrgl/wrgl with /repo, so every check rebuilds from the working tree)",
   "baseline_off_cmd": "bin/vcheck baseline-off",
   "source_commits": commits,
   "add_only": True,
 },
 "engines": [{"name": "vcheck", "path": "/verif/harness", "serves_properties": IMPLEMENTED,
              "kind_free_text": "Go supervisor + worker processes linking the real wrgl packages (tag verif); reference-model monitors, invariant monitors, fault/crash injection via pkg/verifhook, Go race detector"}],
 "checks": checks,
 "not_applicable": na,
 "notes": "Known findings: /verif/KNOWN_FINDINGS.txt (read-only at run time). Exit codes: 0 held, 1 unlisted violation, 2 inconclusive/harness error.",
}
json.dump(m, open('/verif/MANIFEST.json', 'w'), indent=1)
print("claimed:", len(checks), "not claimed:", len(na))
