#!/usr/bin/env python3
# Regenerates /verif/MANIFEST.json from the table below. Edit here, not the JSON.
import json, subprocess
IMPLEMENTED = "C01 C02 C03 C04 C05 C06 C07 C08 C09 C10 C11 C12 C13 C14 C15 C16 C17 C18 C19 C20".split()
NOT_BUILT_REASON = "check not built yet in this work session (planned in DESIGN.md; not a claim that the technique cannot apply)"
P = {
 "C01": ("exploration", "reference-model monitor (sort+dedupe model over encoding/csv-parsed input) on generated CSV x configuration workloads", "4/C01"),
 "C02": ("exploration", "metamorphic monitor: table sum invariance across permutations/run sizes/workers/delimiters and sensitivity to single mutations", "4/C02"),
 "C03": ("exploration", "structural invariant monitor (CheckTable) over every table emitted by every producer", "4/C03"),
 "C04": ("exploration", "reference-model monitor over the diff event stream (set-difference model keyed by primary key)", "4/C04"),
 "C05": ("exploration", "cell-level reference merge model compared with Merger/RowCollector output and CLI merge", "4/C05"),
 "C06": ("exploration", "round-trip and content-address monitors over generated object values incl. 16-bit boundary lengths, worker under a daylight-saving TZ", "4/C06"),
 "C07": ("exploration", "source/destination store snapshot comparison + ordering monitor over the recorded packfile object sequence", "4/C07"),
 "C08": ("exploration", "graph-model oracle over ClosedSetsFinder outputs with a counted-store-reads work bound", "4/C08"),
 "C09": ("exploration", "before/after repository snapshots around real fetch/push/pull against an in-process reference server", "4/C09"),
 "C10": ("exploration", "ref/reflog trace monitor around fetch/push/pull/merge commands with a graph-model ancestry oracle", "4/C10"),
 "C11": ("exploration", "graph-model oracle, exhaustive over all small DAG shapes x timestamp modes, sampled beyond", "4/C11"),
 "C12": ("exploration", "key-set and read-back monitors before/after prune against graph-model reachability", "4/C12"),
 "C13": ("fault_enumeration", "crash/fault injection at every persistent write (verifhook BeforeWrite in the real CLI; recording stores in-process) + repository invariant monitor + re-run equivalence", "4/C13"),
 "C14": ("fault_enumeration", "fault injection at every store call of transaction Commit/Discard + atomicity oracle over heads, reflogs, status", "4/C14"),
 "C15": ("exploration", "step-by-step reference-model monitor (map + per-name logs); porcupine linearizability check of concurrent histories in thorough", "4/C15"),
 "C16": ("exploration", "Go race detector over pipelines with seeded yield injection + sequential-equivalence oracle + error-injection termination monitor", "4/C16"),
 "C17": ("exploration", "hostile-input monitor: structured mutation of valid encodings per decoder entry point; panic/death/allocation/read-count oracles under an address-space limit", "4/C17"),
 "C18": ("exploration", "differential monitor: decode under adversarial chunking readers vs whole-buffer decode", "4/C18"),
 "C19": ("exploration", "reference-model monitor (sort+dedupe) over both sorter outputs at forced spill counts + temp-dir monitor", "4/C19"),
 "C20": ("exploration", "reference-model monitor (Go map) over Add/Flush/reopen programs + raw-file structural invariants after every flush", "4/C20"),
}
TEXT = {
 "C01": ("Every generated CSV x configuration is ingested by the real code and read back through the blocks (and through `wrgl export`, also via the cached branch-file commit route with the edit in the cache entry's second; a spill file that comes back short must fail the ingest; first commit from a configured file; `diff --branch-file` between cached commits; a three-argument commit on a branch whose configuration names another key); the stored table must carry the chosen key; a sort+dedupe model over the encoding/csv parse of the exact bytes decides. Held-on-observed over ~480 (quick) / ~30 000 (thorough) ingests incl. 64 KiB boundary cells, spills and 1..16-worker runs; not a proof over all CSVs.",
         "encoding/csv as the reference for what a file says; which duplicate survives is free; meow collision resistance"),
 "C02": ("Metamorphic: >=20 ingests of one logical table (permutations, spill counts, workers, delimiters, badger, CLI) must give one table id and single mutations must change it; plus the CLI 'file hasn't changed' path and re-keying of a branch file (subset / reorder / no key) through the commit cache, incl. a branch file behind a symbolic link. Exploration over 60/2000 base tables.",
         "unique keys; hash collision resistance assumed"),
 "C03": ("The structural monitor (row count, block sizes, strict key order, block-index entries recomputed with an independent encoder, exact lookups, table index, profile, doctor) runs on every table produced by ingest, doctor resolve and re-ingest here, and on merge results and received tables inside C05/C07/C09/C12/C13.",
         "doctor's blind spots bound the 'no issue' clause; independent string-list encoder in the harness"),
 "C04": ("The complete diff event stream of the real differ is compared with a set-difference model keyed by key hash for (T1,T2), (T2,T1), (T1,T1) over generated table pairs incl. empty sides and shifted block boundaries; the events are also resolved back to rows through the readers the diff command uses, the CSV report of `wrgl diff --no-gui` and the summary of `wrgl diff --all` are parsed and judged, and a single failing store read must surface as an error.",
         "inputs are C03-valid tables with unique keys; common keys under differing columns are don't-cares; keyless tables with differing column lists are not diffed row by row by design and not judged"),
 "C05": ("A cell-level reference merge with explicit don't-cares is compared with Merger/RowCollector output through three paths (rows, blocks+ingest+structural monitor, real `wrgl merge`). All structural classes are judged (the key-not-first class was an open finding until its repair e14f703); for keyless tables whose columns change wrgl (since a repair) refuses the merge, which is accepted for that class only (column reorders included). Merges by the real binary on a store missing one object must fail with the branch untouched or be right.",
         "N<=3 branches; the interactive merge UI is not driven; cells where the statement gives no rule accept any outcome"),
 "C06": ("Round trip, re-encode identity and content addressing for generated commits, tables, blocks, block indices, profiles (the block index built from the encoded block equals the one built from rows; a profile / table index saved again for the same table replaces the earlier one; a save over damaged bytes repairs them); the packfile length header exhaustively over a range plus all 2^k boundaries and samples.",
         "instants outside [1970,2286) excluded; profiles are those the profiler produces"),
 "C07": ("Source/destination store snapshots and the recorded object stream of real ObjectSender -> PackfileReader -> ObjectReceiver transfers (incl. re-ordered hostile streams and packfiles cut inside an object) are compared: byte identity, ordering, rebuilt indices, nothing half-visible after a refusal.",
         "in-memory transport; sender's precondition (tables of common commits complete at the destination) is respected"),
 "C08": ("ClosedSetsFinder outputs over exhaustive small DAG shapes, random DAGs and growing merge families are judged against harness-computed ancestor sets, with a counted-store-reads bound standing in for 'polynomial'; duplicate wants and a further round after a refusal included.",
         "work bound 8(n+r)^2+64 on the stated families; repeated entries are not judged in themselves"),
 "C09": ("Real `wrgl fetch/push/pull` (and UploadPackSession directly) run in-process against a reference HTTP server built from wrgl's own finder/sender/receiver; object and ref snapshots of both sides plus the server's request log decide completeness, identity and idempotence; a quarter of the exchanges are retries after an attempt interrupted by an injected store failure, single-branch fetches face remotes with off-branch tags, full fetches follow earlier shallow ones (incl. refs created on commits left shallow, and `fetch tables`, tags no refspec names, a depth fetch after a depth fetch), pushes come from shallow clones or from repositories tracking another remote, two refspecs may share a destination, `fetch --all` may address two remotes on one host, the server may speak HTTP/2 over TLS, and it may cut the k-th packfile of an exchange mid-body (HTTP/2 stream reset, which fetch/pull answer by restarting the exchange themselves; HTTP/1.1 dropped connection, after which the command is run again).",
         "the reference server (harness/refserver) is trusted; no authentication, retries or real wrgld"),
 "C10": ("Ref values and full reflogs before/after real fetch (also --all from configured refspecs)/push (tags from several source spellings)/pull/merge commands, judged against the harness graph model: forward-only moves without force (also for merge targets spelled below the branch and for shallow merged commits), tags never clobbered (also hierarchical tag names), rejections reported while other refs still update, exact fast-forward (the mode in force coming from a flag or from merge.fastForward), a pull never resets the local branch (also with a '+' refspec and a branch name that does not resolve), faithful reflog entries.",
         "client-side gating only; the reference server applies what it is sent"),
 "C11": ("All labelled commit DAGs with <=2 parents up to n=5 (quick) / n=6 (thorough) x four timestamp modes: IsAncestorOf for all pairs, history walks, SeekCommonAncestor for all pairs and triples, against harness ancestor sets; plus interrupted and resumed walks on CommitsQueue (RemoveAncestors, PopUntil) against a model; random DAGs of 60..150 commits with merge bases of 5..130 heads. Exhaustive within the bound, sampled beyond.",
         "which common ancestor is chosen is free unless an input is one"),
 "C12": ("Key sets and bytes before/after prune (package level and real `wrgl prune`/`gc`) against graph-model reachability, with full read-back of every reachable commit through the structural monitor and a second prune; repositories hold tables sharing blocks under two keys and refs of an open transaction; the worker runs west of UTC and half of the gc runs have a two-hour transactionTTL.",
         "objects that never belonged to a commit are don't-cares"),
 "C13": ("Fault enumeration: for every scenario EVERY persistent write position is visited, once killing the real `wrgl` process before the write (SIGKILL via verifhook) and once failing the write; the reopened repository must satisfy the invariant monitor and a re-run must reach the uninterrupted outcome. Scenarios: commit (new, existing, shared-table, reverted data), merge (ff, no-ff, real), prune, transaction commit, fetch and pull against the in-worker reference server. Also in-process over recording stores for ingest, receive, prune.",
         "a single badger update / SQL transaction is atomic and durable against process death; crashes inside a write and power loss are not modelled"),
 "C14": ("Fault enumeration over every store operation (reads and writes) of transaction Commit and Discard, as error and as process death, x every branch mix up to 3, each 4 times (map order), plus the real `wrgl transaction commit` killed/failed at every write, plus unrelated commits landing on already-moved branches before the re-run, plus a foreign read cursor on the SQLite file during each branch move, plus a foreign write transaction during each read of the ref store, plus discard after a half-applied commit, reapply after later work, hierarchical branch names, plus the double-commit/discard sequences; the atomicity oracle inspects heads, reflogs (txid entries), status and staged refs and re-runs.",
         "concurrent committers of one transaction are not modelled"),
 "C15": ("Every return value of the ref store (SQL memory/file, file store) is compared step by step with a map + per-name log model over an alphabet built to expose wildcard, case and prefix confusion (also programs that grow logs of 50..200 entries on two names); concurrent clients on one SQLite file are checked for linearizability per name with porcupine (failed operations left open with unknown effect) and for reflog-chain integrity.",
         "rename/copy onto existing names must fail without effect; file store restricted to what it implements"),
 "C16": ("All pipelines run under the Go race detector with synchronisation-free yields at the shared-state touch points, varying workers and GOMAXPROCS; every race report is attributed to the case and classified by its accessing frames; results must equal the single-worker run; store errors injected into ingest, diff and merge - and into the real binary's commit and merge with default progress bars - must surface and return, hangs judged by goroutine state; progress trackers are started, consumed and stopped the way the commands do it; store errors also hit ingests that are merging spill files.",
         "schedules are sampled, not enumerated; the detector only sees synchronisation it intercepts"),
 "C17": ("Structured mutation of valid encodings (every truncation, bit flips, every 1/2/4-byte window x 11 boundary values, every 1/2-byte window x small indices 2..17, every byte x 29 ASCII characters text parsers trip over, two-field forgeries, splices, mutually inconsistent well-formed objects) for 18 decoder entry points and ObjectReceiver.Receive; per input: returns, no panic/death (6 GiB address-space limit, canary file), allocation and Read-call bounds, a re-timed work bound, and nothing rejected left visible. Replies of a remote: a valid exchange of wrgl's client with the reference server is recorded and replayed with one reply replaced by a mutant (structural JSON mutants incl. null / short / long sums, truncations, bit flips, wrong content type or status, another reply of the exchange) against UploadPackSession, Client.GetRefs and the real `wrgl fetch` / `wrgl push`: no panic, no requests after the script ended, repository invariant afterwards. Three s2-related signatures are open known findings.",
         "inputs sampled around valid encodings; Decode functions without error return are not entry points"),
 "C18": ("Differential: each valid stream is decoded whole and under 16+ chunkers incl. one-byte, data+EOF, (0,nil) reads, seeded random sizes and cuts inside every header, incl. fields and payloads far longer than any chunk; values and terminal condition must agree; wrgl's HTTP client reads upload-pack / objects / refs answers written by an httptest server in every write pattern, plainly, under a gzip content encoding and over HTTP/2 on TLS. A one-byte-per-flush variant also runs inside C09.",
         "readers returning (0,nil) forever are excluded"),
 "C19": ("Both outputs of two identically fed sorters are compared with sort+dedupe of the input minus removed columns, with each other row for row, and the temp dir is listed after Close, over tiny-alphabet multisets x key shapes x forced spill counts x removed-column sets, fed through AddRow or through SortFile; rows of different widths (as in a merge whose branches only appended columns) and sorters that were used for another, wider, spilled table before and Reset (as the doctor does).",
         "removed columns are never key columns; keyless tables are not combined with removed columns"),
 "C20": ("Every flush/reopen point of ~1000 (quick) / 20000 (thorough) generated programs is compared against a map for the whole hash universe, and the file's order and fan-out are re-derived from raw bytes; hashes are passed as separate slices or carved from one caller-owned buffer; bulk programs put up to 1 700 hashes of one first byte into a single flush under batch sizes up to 4096. Held-on-observed, not a proof; the right level because the state space (file contents x pending batch) is unbounded but small universes force the interesting collisions.",
         "callers never modify a slice after Add; os.File and misc.Buffer semantics"),
}
def text(pid):
    if pid in TEXT: return TEXT[pid]
    return ("Runtime monitoring of the real code under generated and hostile workloads; verdict is 'held on the executions observed' (see DESIGN.md section %s)." % P[pid][2],
            "Go toolchain and race detector; harness reference models; see DESIGN.md")
checks, na = [], []
for pid in sorted(P):
    lvl, tech, ref = P[pid]
    if pid in IMPLEMENTED:
        t, note = text(pid)
        checks.append({
            "property_id": pid,
            "quick_cmd": "bin/vcheck %s quick" % pid,
            "thorough_cmd": "bin/vcheck %s thorough" % pid,
            "evidence_file": "/verif/evidence/%s.json" % pid,
            "replay_cmd_template": "bin/vcheck %s --replay {path}" % pid,
            "engine": "vcheck",
            "level_claimed": {"category": lvl, "text": t, "design_ref": "DESIGN.md §" + ref},
            "level_note": note,
            "technique": "runtime monitoring: " + tech,
        })
    else:
        na.append({"property_id": pid, "reason": NOT_BUILT_REASON})
commits = subprocess.run("git -C /repo log --format=%h --grep '^verif:' ", shell=True, capture_output=True, text=True).stdout.split()
m = {
 "version": 1,
 "setup_cmd": "bin/vcheck setup",
 "hooks": {
   "guard": "verif (Go build tag)",
   "enable": "go build -tags verif (the harness module replaces github.com/wrgl/wrgl with /repo, so every check rebuilds from the working tree)",
   "baseline_off_cmd": "bin/vcheck baseline-off",
   "source_commits": commits,
   "add_only": True,
 },
 "engines": [{"name": "vcheck", "path": "/verif/harness", "serves_properties": IMPLEMENTED,
              "kind_free_text": "Go supervisor + worker processes linking the real wrgl packages (tag verif); reference-model monitors, invariant monitors, fault/crash injection via pkg/verifhook, Go race detector"}],
 "checks": checks,
 "not_applicable": na,
 "notes": "Known findings: /verif/KNOWN_FINDINGS.txt (read-only at run time). Exit codes: 0 held, 1 unlisted violation, 2 inconclusive/harness error.",
}
json.dump(m, open('/verif/MANIFEST.json', 'w'), indent=1)
print("claimed:", len(checks), "not claimed:", len(na))
