#!/bin/bash
# confirm_seed.sh <prop> <k> <demo pkg dir> <srcdir>  — confirms a seeded change in a scratch worktree at /repo's HEAD:
# demo passes without the change, fails with it, and the repository suite passes with it. Writes /verif/seeded/<prop>-<k>/.
. /verif/bin/env.sh
P=$1; K=$2; PKG=$3; SRC=$4
W=/tmp/cf/$P$K; OUT=/verif/seeded/$P-$K
rm -rf $W; git -C /repo worktree prune; git -C /repo worktree add -q --detach $W HEAD || exit 2
mkdir -p $OUT
cd $W
cp $SRC/demo_test.go $PKG/zz_seed_demo_test.go
go test $TAGS -count=1 -run "${RUNRE:-Demo|Seed|C[0-9][0-9]}" ./$PKG/ > $OUT/demo_without.log 2>&1; R0=$?
if ! git apply $SRC/patch.diff 2>/dev/null; then git apply -3 $SRC/patch.diff 2>$OUT/apply.log || { echo "$P-$K APPLY-FAILED"; cd /; git -C /repo worktree remove --force $W; exit 3; }; fi
git diff -- . ':!*zz_seed_demo_test.go' > $OUT/patch.diff
go build ./... > $OUT/build.log 2>&1; RB=$?
go test $TAGS -count=1 -run "${RUNRE:-Demo|Seed|C[0-9][0-9]}" ./$PKG/ > $OUT/demo_with.log 2>&1; R1=$?
rm -f $PKG/zz_seed_demo_test.go
go test -count=1 -vet=off ./pkg/... ./cmd/... > $OUT/suite_with.log 2>&1; RS=$?
# pkg/auth/fs (file-watcher test) is flaky when the machine is loaded: if it is the only failure, run the suite once more
if [ $RS -ne 0 ] && ! grep '^FAIL' $OUT/suite_with.log | grep 'github.com' | grep -qv 'pkg/auth/fs'; then
  mv $OUT/suite_with.log $OUT/suite_with.first_attempt.log
  go test -count=1 -vet=off ./pkg/... ./cmd/... > $OUT/suite_with.log 2>&1; RS=$?
fi
cp $SRC/demo_test.go $OUT/demo_test.go; cp $SRC/NOTES.md $OUT/NOTES.md
echo "$P-$K demo_without=$R0 build=$RB demo_with=$R1 suite_with=$RS fails=$(grep -c '^FAIL' $OUT/suite_with.log)"
cd /; git -C /repo worktree remove --force $W
