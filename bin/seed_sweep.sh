#!/bin/bash
# seed_sweep.sh — runs every seeded change against its property's quick check (and extra checks listed in seeded/PLAN.tsv)
# and writes seeded/RESULTS.tsv. /repo must be clean.
cd /verif
: > seeded/RESULTS.tsv
while read -r seed checks; do
  [ -z "$seed" ] && continue
  case "$seed" in \#*) continue;; esac
  for c in $checks; do
    line=$(bin/run_seed.sh $seed $c)
    echo "$line"
    echo "$line" >> seeded/RESULTS.tsv
  done
done < seeded/PLAN.tsv
