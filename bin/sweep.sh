#!/bin/bash
# sweep.sh <tier> <seed>... — runs every check at every seed; prints one line per run and the non-zero exits at the end
cd /verif
tier=$1; shift
bad=0
for seed in "$@"; do
  for id in C01 C02 C03 C04 C05 C06 C07 C08 C09 C10 C11 C12 C13 C14 C15 C16 C17 C18 C19 C20; do
    out=$(VERIF_SEED=$seed bin/vcheck $id $tier 2>&1); rc=$?
    line=$(echo "$out" | grep '^SUMMARY' | cut -c1-140)
    echo "seed=$seed rc=$rc $line"
    if [ $rc -ne 0 ]; then bad=$((bad+1)); echo "$out" | grep -E '^VIOLATION|^INCONCLUSIVE' | cut -c1-300 | head -5; fi
  done
done
echo "NONZERO_EXITS=$bad"
