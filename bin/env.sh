# sourced by every command: offline Go settings
export GOFLAGS=-mod=mod GOPROXY=off GOSUMDB=off GOTOOLCHAIN=local
export CGO_ENABLED=1
