#!/usr/bin/env python3
# writes meta.json into every /verif/seeded/<prop>-<k>/ from NOTES.md, the confirmation logs and RESULTS.tsv
import json, os, re, glob
res = {}
if os.path.exists('/verif/seeded/RESULTS.tsv'):
    for l in open('/verif/seeded/RESULTS.tsv'):
        m = re.match(r'(\S+) check=(\S+) tier=(\S+) exit=(\d+) violations_lines=(\d+) ?(.*)', l.strip())
        if m:
            res.setdefault(m.group(1), []).append({"check": m.group(2), "tier": m.group(3), "exit": int(m.group(4)), "violation_lines": int(m.group(5)), "first_signatures": m.group(6)})
for d in sorted(glob.glob('/verif/seeded/C*-*')):
    name = os.path.basename(d)
    prop = name.split('-')[0]
    notes = open(os.path.join(d, 'NOTES.md')).read() if os.path.exists(os.path.join(d, 'NOTES.md')) else ''
    def log_ok(f):
        p = os.path.join(d, f)
        return os.path.exists(p) and 'FAIL' not in open(p, errors='replace').read()
    needs = ''
    m = re.search(r'(?is)(trigger|what is needed|needs?)[^\n]*\n(.{0,900})', notes)
    if m: needs = ' '.join(m.group(2).split())[:700]
    meta = {
        "breaks_property": prop,
        "origin": "written by a fresh sub-agent given only the property text and its own scratch worktree",
        "needs_to_manifest": needs or "see NOTES.md",
        "confirmed_by_me": {
            "how": "bin/confirm_seed.sh in a scratch worktree at /repo HEAD: demo passes without the change, fails with it, go build ./... ok, go test ./pkg/... ./cmd/... passes with it",
            "demo_passes_without_change": log_ok('demo_without.log'),
            "demo_fails_with_change": not log_ok('demo_with.log'),
            "suite_passes_with_change": log_ok('suite_with.log'),
        },
        "round": {"A": 1, "B": 1, "C": 2, "D": 2, "E": 3, "F": 3, "G": 4, "H": 4, "I": 5, "J": 5, "K": 6, "L": 6}.get(name.split('-')[1], 0),
        "files": {"patch": "patch.diff", "demonstration": "demo_test.go", "agent_notes": "NOTES.md", "logs": ["demo_without.log", "demo_with.log", "build.log", "suite_with.log"]},
        "how_to_run_a_check_against_it": "bin/run_seed.sh %s <check id> [quick|thorough]  (git -C /repo apply patch.diff; bin/vcheck ...; git -C /repo checkout -- .)" % name,
        "checks_run": res.get(name, []),
        "caught": any(r["exit"] == 1 and r["violation_lines"] > 0 for r in res.get(name, [])),
    }
    extra = os.path.join(d, 'STATUS.txt')
    if os.path.exists(extra):
        meta["status_note"] = open(extra).read().strip()
    json.dump(meta, open(os.path.join(d, 'meta.json'), 'w'), indent=1)
    print(name, 'caught' if meta['caught'] else 'NOT CAUGHT', [r['check'] for r in res.get(name, [])])
