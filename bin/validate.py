#!/usr/bin/env python3
# validates MANIFEST.json and evidence/*.json against the schemas in /root/.vp
import json, sys, glob
import jsonschema
ok = True
m = json.load(open('/verif/MANIFEST.json'))
try:
    jsonschema.validate(m, json.load(open('/root/.vp/MANIFEST.schema.json')))
except Exception as e:
    ok = False; print('MANIFEST invalid:', e)
props = [json.loads(l)['id'] for l in open('/verif/properties.jsonl')]
claimed = [c['property_id'] for c in m['checks']]
na = [c['property_id'] for c in m.get('not_applicable', [])]
for p in props:
    if p not in claimed and p not in na:
        ok = False; print('property neither claimed nor not_applicable:', p)
es = json.load(open('/root/.vp/EVIDENCE.schema.json'))
for f in sorted(glob.glob('/verif/evidence/*.json')):
    try:
        jsonschema.validate(json.load(open(f)), es)
    except Exception as e:
        ok = False; print(f, 'invalid:', str(e)[:300])
print('ok' if ok else 'FAILED')
sys.exit(0 if ok else 1)
