//go:build !race

package fw

const RaceEnabled = false
