// Package fw is the small framework shared by all property checks:
// case lists, worker processes, observations, known findings and evidence.
package fw

import (
	"encoding/json"
	"fmt"
	"math/rand"
	"sort"
)

// Case is one unit of work. Params hold everything needed to regenerate the
// inputs; a case replays alone.
type Case struct {
	ID     string          `json:"id"`
	Prop   string          `json:"prop"`
	Kind   string          `json:"kind"`
	Seed   int64           `json:"seed"`
	Params json.RawMessage `json:"params,omitempty"`
}

func (c *Case) P(v interface{}) {
	if len(c.Params) == 0 {
		return
	}
	if err := json.Unmarshal(c.Params, v); err != nil {
		panic(fmt.Errorf("case %s: bad params: %v", c.ID, err))
	}
}

func (c *Case) Rand() *rand.Rand { return rand.New(rand.NewSource(c.Seed)) }

// Viol is one violation found by an oracle. Sig is the structural signature
// (<oracle clause>/<entry point>/<class of input>), produced by the oracle.
type Viol struct {
	Prop   string `json:"prop,omitempty"` // defaults to the case's property
	Sig    string `json:"sig"`
	Detail string `json:"detail"`
}

// Obs is what the monitors observed for one case.
type Obs struct {
	ID     string           `json:"id"`
	Status string           `json:"status"` // ok | violation | died | inconclusive
	Viols  []Viol           `json:"viols,omitempty"`
	Events map[string]int64 `json:"events,omitempty"`
	// Keys are labels of distinct non-trivial situations this case covered
	// (the union over all cases is what evidence reports as distinct_nontrivial).
	Keys []string `json:"keys,omitempty"`
	// Sets collect named sets of strings (e.g. completion orders seen).
	Sets   map[string][]string `json:"sets,omitempty"`
	Sample interface{}         `json:"sample,omitempty"`
	Note   string              `json:"note,omitempty"`
	Stderr string              `json:"stderr,omitempty"`
}

func NewObs(c *Case) *Obs {
	return &Obs{ID: c.ID, Status: "ok", Events: map[string]int64{}, Sets: map[string][]string{}}
}

func (o *Obs) Ev(name string, n int64) { o.Events[name] += n }
func (o *Obs) Max(name string, n int64) {
	if n > o.Events[name] {
		o.Events[name] = n
	}
}
func (o *Obs) Key(format string, a ...interface{}) {
	o.Keys = append(o.Keys, fmt.Sprintf(format, a...))
}
func (o *Obs) Set(name, v string) { o.Sets[name] = append(o.Sets[name], v) }
func (o *Obs) Violate(sig, format string, a ...interface{}) {
	d := fmt.Sprintf(format, a...)
	if len(d) > 4000 {
		d = d[:4000] + "…"
	}
	o.Viols = append(o.Viols, Viol{Sig: sig, Detail: d})
	o.Status = "violation"
}
func (o *Obs) ViolateProp(prop, sig, format string, a ...interface{}) {
	o.Violate(sig, format, a...)
	o.Viols[len(o.Viols)-1].Prop = prop
}

// Env is what a worker gives to a case.
type Env struct {
	Dir         string // private scratch directory of this worker (cwd, TMPDIR, HOME)
	Race        bool   // running in the -race build
	Tier        string
	Self        string // path of this binary
	WrglBin     string
	WrglBinRace string
}

// Property describes one check.
type Property struct {
	ID          string
	Level       string // exploration | fault_enumeration | ...
	Rule        string
	Assumptions []string
	Race        bool     // run workers from the -race build
	MemLimitKB  int64    // ulimit -v for plain workers (0 = none)
	Workers     int      // max parallel workers (0 = default)
	Env         []string // extra environment for worker processes
	// CaseTimeoutS is the generous per-case watchdog in seconds (default 600).
	CaseTimeoutS int
	// Classify names the structural class of a case (used in the signature of a worker death).
	Classify func(c *Case) string
	Gen      func(tier string, seed int64) []Case
	Run      func(c *Case, env *Env) *Obs
	// Post runs in the supervisor over all observations (offline checkers, coverage floors).
	// It may append violations to an aggregate observation and returns inconclusive reasons.
	Post func(tier string, obs []*Obs, agg *Obs) (inconclusive []string)
}

var registry = map[string]*Property{}

func Register(p *Property)    { registry[p.ID] = p }
func Get(id string) *Property { return registry[id] }
func IDs() []string {
	var ids []string
	for id := range registry {
		ids = append(ids, id)
	}
	sort.Strings(ids)
	return ids
}

// CaseList is a helper to build case lists with split seeds.
type CaseList struct {
	Prop  string
	Tier  string
	Seed  int64
	Cases []Case
	rng   *rand.Rand
}

func NewCaseList(prop, tier string, seed int64) *CaseList {
	return &CaseList{Prop: prop, Tier: tier, Seed: seed, rng: rand.New(rand.NewSource(seed*1000003 + int64(len(prop))*7919 + hashStr(prop)))}
}

func hashStr(s string) int64 {
	var h int64 = 1469598103934665603
	for _, c := range []byte(s) {
		h ^= int64(c)
		h *= 1099511628211
	}
	return h
}

// Add appends a case; a fresh seed is drawn for it. fixedSeed != 0 pins the seed (fixed corpus).
func (l *CaseList) Add(kind string, params interface{}, fixedSeed int64) {
	s := fixedSeed
	drawn := l.rng.Int63()
	if s == 0 {
		s = drawn
	}
	var raw json.RawMessage
	if params != nil {
		b, err := json.Marshal(params)
		if err != nil {
			panic(err)
		}
		raw = b
	}
	l.Cases = append(l.Cases, Case{
		ID:     fmt.Sprintf("%s-%s-%d-%05d", l.Prop, l.Tier, l.Seed, len(l.Cases)),
		Prop:   l.Prop,
		Kind:   kind,
		Seed:   s,
		Params: raw,
	})
}

func (l *CaseList) Rng() *rand.Rand { return l.rng }

// N picks the quick or thorough size.
func (l *CaseList) N(quick, thorough int) int {
	if l.Tier == "thorough" {
		return thorough
	}
	return quick
}

// SubRand derives an independent PRNG for a sub-stream of a case.
func SubRand(seed, stream int64) *rand.Rand {
	return rand.New(rand.NewSource(seed*1315423911 + stream*2654435761 + 17))
}
