package fw

import (
	"os"
	"sort"
	"strings"
)

// readRaceBlocks returns the complete race report blocks found in the race log
// file after offset off, and the new offset.
func readRaceBlocks(path string, off int64) ([]string, int64) {
	b, err := os.ReadFile(path)
	if err != nil || int64(len(b)) <= off {
		return nil, off
	}
	s := string(b[off:])
	var blocks []string
	const sep = "=================="
	consumed := 0
	for {
		i := strings.Index(s[consumed:], "WARNING: DATA RACE")
		if i < 0 {
			break
		}
		start := consumed + i
		j := strings.Index(s[start:], sep)
		if j < 0 {
			break // incomplete block: wait for more
		}
		blocks = append(blocks, s[start:start+j])
		consumed = start + j + len(sep)
	}
	return blocks, off + int64(consumed)
}

type raceStack struct {
	header string
	funcs  []string
}

func parseRace(block string) []raceStack {
	var stacks []raceStack
	var cur *raceStack
	lines := strings.Split(block, "\n")
	for _, ln := range lines {
		if strings.TrimSpace(ln) == "" {
			cur = nil
			continue
		}
		if !strings.HasPrefix(ln, " ") {
			if strings.HasPrefix(ln, "WARNING") {
				continue
			}
			stacks = append(stacks, raceStack{header: ln})
			cur = &stacks[len(stacks)-1]
			continue
		}
		if cur == nil {
			continue
		}
		t := strings.TrimSpace(ln)
		if strings.HasPrefix(t, "/") || strings.Contains(t, ".go:") || strings.Contains(t, ".s:") {
			continue // file:line
		}
		if i := strings.LastIndex(t, "("); i > 0 {
			t = t[:i]
		}
		cur.funcs = append(cur.funcs, t)
	}
	return stacks
}

func isWrgl(fn string) bool {
	return strings.HasPrefix(fn, "github.com/wrgl/wrgl/") && !strings.Contains(fn, "/testutils.")
}

func isHarness(fn string) bool { return strings.HasPrefix(fn, "verif/") }

// ClassifyRace returns the class (wrgl | via-dependency | harness) and a
// signature made of the two accessing (top) frames, line numbers stripped.
func ClassifyRace(block string) (class, sig string) {
	stacks := parseRace(block)
	var tops []string
	anyWrgl := false
	for i, st := range stacks {
		access := i < 2 && (strings.Contains(st.header, "rite at") || strings.Contains(st.header, "ead at"))
		if access && len(st.funcs) > 0 {
			tops = append(tops, st.funcs[0])
		}
		for _, f := range st.funcs {
			if isWrgl(f) {
				anyWrgl = true
			}
		}
	}
	// the accessing frame is often a runtime / sync helper called from the code at fault:
	// look at the first frame outside the runtime and the sync packages
	tops = tops[:0]
	for i, st := range stacks {
		access := i < 2 && (strings.Contains(st.header, "rite at") || strings.Contains(st.header, "ead at"))
		if !access {
			continue
		}
		for _, f := range st.funcs {
			if strings.HasPrefix(f, "runtime.") || strings.HasPrefix(f, "sync.") || strings.HasPrefix(f, "sync/atomic.") {
				continue
			}
			tops = append(tops, f)
			break
		}
	}
	short := make([]string, len(tops))
	topWrgl, topHarness := false, len(tops) > 0
	for i, t := range tops {
		if isWrgl(t) {
			topWrgl = true
		}
		if !isHarness(t) {
			topHarness = false
		}
		short[i] = strings.TrimPrefix(t, "github.com/wrgl/wrgl/")
	}
	sort.Strings(short)
	sig = strings.Join(short, "|")
	switch {
	case topWrgl:
		return "wrgl", sig
	case topHarness || !anyWrgl:
		return "harness", sig
	default:
		// name the outermost wrgl frames under the dependency frames
		var under []string
		for i, st := range stacks {
			if i >= 2 {
				break
			}
			for _, f := range st.funcs {
				if isWrgl(f) {
					under = append(under, strings.TrimPrefix(f, "github.com/wrgl/wrgl/"))
					break
				}
			}
		}
		sort.Strings(under)
		return "via-dependency", "via-dependency:" + strings.Join(under, "|")
	}
}
