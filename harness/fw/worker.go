package fw

import (
	"bufio"
	"encoding/json"
	"fmt"
	"os"
	"path/filepath"
	"runtime"
	"runtime/debug"
	"strings"
	"sync"
	"time"
)

// Catch runs f and returns the recovered panic (with stack), or "" if none.
func Catch(f func()) (p string) {
	defer func() {
		if r := recover(); r != nil {
			p = fmt.Sprintf("%v\n%s", r, trimStack(debug.Stack()))
		}
	}()
	f()
	return ""
}

func trimStack(b []byte) string {
	s := string(b)
	if len(s) > 3000 {
		s = s[:3000] + "…"
	}
	return s
}

// PanicSite extracts the first wrgl frame (function name) of a recovered panic text.
func PanicSite(p string) string {
	for _, ln := range strings.Split(p, "\n") {
		ln = strings.TrimSpace(ln)
		if strings.HasPrefix(ln, "github.com/wrgl/wrgl/") {
			if i := strings.LastIndex(ln, "("); i > 0 {
				ln = ln[:i]
			}
			return strings.TrimPrefix(ln, "github.com/wrgl/wrgl/")
		}
	}
	return "unknown"
}

func readCases(path string) ([]Case, error) {
	f, err := os.Open(path)
	if err != nil {
		return nil, err
	}
	defer f.Close()
	var cases []Case
	sc := bufio.NewScanner(f)
	sc.Buffer(make([]byte, 1<<20), 1<<28)
	for sc.Scan() {
		if len(sc.Bytes()) == 0 {
			continue
		}
		var c Case
		if err := json.Unmarshal(sc.Bytes(), &c); err != nil {
			return nil, err
		}
		cases = append(cases, c)
	}
	return cases, sc.Err()
}

// WorkerMain runs the cases of one chunk file sequentially, appending
// "B <id>" before and "O <json>" after each case to obsPath.
func WorkerMain(propID, casePath, obsPath string) int {
	p := Get(propID)
	if p == nil {
		fmt.Fprintf(os.Stderr, "unknown property %s\n", propID)
		return 2
	}
	cases, err := readCases(casePath)
	if err != nil {
		fmt.Fprintf(os.Stderr, "read cases: %v\n", err)
		return 2
	}
	out, err := os.OpenFile(obsPath, os.O_CREATE|os.O_WRONLY|os.O_APPEND, 0644)
	if err != nil {
		fmt.Fprintf(os.Stderr, "open obs: %v\n", err)
		return 2
	}
	defer out.Close()
	cwd, _ := os.Getwd()
	self, _ := os.Executable()
	env := &Env{
		Dir:         cwd,
		Race:        RaceEnabled,
		Tier:        os.Getenv("VERIF_TIER"),
		Self:        self,
		WrglBin:     filepath.Join(filepath.Dir(self), "wrgl"),
		WrglBinRace: filepath.Join(filepath.Dir(self), "wrgl-race"),
	}
	timeout := time.Duration(p.CaseTimeoutS) * time.Second
	if timeout == 0 {
		timeout = 600 * time.Second
	}
	raceLog := os.Getenv("VERIF_RACE_LOG")
	var raceOff int64
	var mu sync.Mutex
	for i := range cases {
		c := &cases[i]
		fmt.Fprintf(out, "B %s\n", c.ID)
		done := make(chan struct{})
		go func() {
			select {
			case <-done:
			case <-time.After(timeout):
				mu.Lock()
				buf := make([]byte, 1<<20)
				n := runtime.Stack(buf, true)
				o := NewObs(c)
				o.Status = "timeout"
				o.Note = string(buf[:n])
				if len(o.Note) > 60000 {
					o.Note = o.Note[:60000]
				}
				b, _ := json.Marshal(o)
				fmt.Fprintf(out, "O %s\n", b)
				out.Sync()
				os.Exit(3)
			}
		}()
		var o *Obs
		if pn := Catch(func() { o = p.Run(c, env) }); pn != "" {
			o = NewObs(c)
			o.Violate("panic/"+c.Kind+"/"+PanicSite(pn), "uncaught panic: %s", pn)
		}
		close(done)
		if o == nil {
			o = NewObs(c)
		}
		o.ID = c.ID
		if RaceEnabled && raceLog != "" {
			blocks, off := readRaceBlocks(fmt.Sprintf("%s.%d", raceLog, os.Getpid()), raceOff)
			raceOff = off
			for _, b := range blocks {
				cls, sig := ClassifyRace(b)
				if o.Events == nil {
					o.Events = map[string]int64{}
				}
				o.Events["race_reports"]++
				o.Events["race_reports_"+cls]++
				switch cls {
				case "harness":
					o.Status = "inconclusive"
					o.Note += "race report with only harness frames:\n" + b
				default:
					o.Violate("race/"+sig, "%s", b)
				}
			}
		}
		mu.Lock()
		b, _ := json.Marshal(o)
		fmt.Fprintf(out, "O %s\n", b)
		mu.Unlock()
	}
	return 0
}
