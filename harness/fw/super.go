package fw

import (
	"bufio"
	"bytes"
	"encoding/json"
	"fmt"
	"os"
	"os/exec"
	"path/filepath"
	"sort"
	"strconv"
	"strings"
	"sync"
	"time"
)

const VerifDir = "/verif"

type Finding struct {
	Prop string
	Sig  string
	Text string
}

// LoadFindings reads the "open:" lines of KNOWN_FINDINGS.txt. Never written at run time.
func LoadFindings() []Finding {
	b, err := os.ReadFile(filepath.Join(VerifDir, "KNOWN_FINDINGS.txt"))
	if err != nil {
		return nil
	}
	var fs []Finding
	for _, ln := range strings.Split(string(b), "\n") {
		ln = strings.TrimSpace(ln)
		if !strings.HasPrefix(ln, "open:") {
			continue
		}
		f := Finding{}
		rest := strings.Fields(strings.TrimPrefix(ln, "open:"))
		var text []string
		for _, w := range rest {
			switch {
			case strings.HasPrefix(w, "property=") && f.Prop == "":
				f.Prop = strings.TrimPrefix(w, "property=")
			case strings.HasPrefix(w, "sig=") && f.Sig == "":
				f.Sig = strings.TrimPrefix(w, "sig=")
			default:
				text = append(text, w)
			}
		}
		f.Text = strings.Join(text, " ")
		if f.Prop != "" && f.Sig != "" {
			fs = append(fs, f)
		}
	}
	return fs
}

type chunk struct {
	idx   int
	cases []Case
}

type runCtx struct {
	p       *Property
	tier    string
	seed    int64
	scratch string
	binDir  string
	mu      sync.Mutex
	obs     map[string]*Obs
	deaths  int
}

func envSeed() int64 {
	if s := os.Getenv("VERIF_SEED"); s != "" {
		if n, err := strconv.ParseInt(s, 10, 64); err == nil {
			return n
		}
	}
	return 1
}

// runChunk runs one worker process over the cases, restarting after deaths.
func (rc *runCtx) runChunk(ch chunk) {
	cases := ch.cases
	attempt := 0
	for len(cases) > 0 {
		attempt++
		dir := filepath.Join(rc.scratch, fmt.Sprintf("w%04d-%d", ch.idx, attempt))
		os.MkdirAll(dir, 0755)
		casePath := filepath.Join(dir, "cases.jsonl")
		obsPath := filepath.Join(dir, "obs.jsonl")
		var buf bytes.Buffer
		for i := range cases {
			b, _ := json.Marshal(&cases[i])
			buf.Write(b)
			buf.WriteByte('\n')
		}
		os.WriteFile(casePath, buf.Bytes(), 0644)
		work := filepath.Join(dir, "work")
		os.MkdirAll(work, 0755)
		bin := filepath.Join(rc.binDir, "vcheck")
		if rc.p.Race {
			bin = filepath.Join(rc.binDir, "vcheck-race")
		}
		var cmd *exec.Cmd
		if rc.p.MemLimitKB > 0 && !rc.p.Race {
			cmd = exec.Command("/bin/sh", "-c", fmt.Sprintf("ulimit -v %d; exec \"$0\" \"$@\"", rc.p.MemLimitKB), bin, "worker", rc.p.ID, casePath, obsPath)
		} else {
			cmd = exec.Command(bin, "worker", rc.p.ID, casePath, obsPath)
		}
		cmd.Dir = work
		raceLog := filepath.Join(dir, "race")
		cmd.Env = append(os.Environ(),
			"TMPDIR="+work, "HOME="+work, "XDG_CONFIG_HOME="+filepath.Join(work, ".config"),
			"VERIF_TIER="+rc.tier,
			"VERIF_RACE_LOG="+raceLog,
			"VERIF_CANARY_FILE="+filepath.Join(dir, "canary.bin"),
			"GORACE=halt_on_error=0 history_size=5 log_path="+raceLog,
		)
		cmd.Env = append(cmd.Env, rc.p.Env...)
		stderrPath := filepath.Join(dir, "stderr")
		ef, _ := os.Create(stderrPath)
		cmd.Stderr = ef
		cmd.Stdout = ef
		err := cmd.Run()
		ef.Close()
		// collect
		done := map[string]bool{}
		var begun string
		if f, e := os.Open(obsPath); e == nil {
			sc := bufio.NewScanner(f)
			sc.Buffer(make([]byte, 1<<20), 1<<28)
			for sc.Scan() {
				ln := sc.Text()
				if strings.HasPrefix(ln, "B ") {
					begun = ln[2:]
				} else if strings.HasPrefix(ln, "O ") {
					var o Obs
					if json.Unmarshal([]byte(ln[2:]), &o) == nil {
						rc.mu.Lock()
						rc.obs[o.ID] = &o
						rc.mu.Unlock()
						done[o.ID] = true
					}
				}
			}
			f.Close()
		}
		var rest []Case
		for _, c := range cases {
			if !done[c.ID] {
				rest = append(rest, c)
			}
		}
		if len(rest) == 0 {
			os.RemoveAll(dir)
			return
		}
		// worker died (or exited early)
		tail := tailFile(stderrPath, 6000)
		victim := rest[0]
		if begun != "" && !done[begun] {
			for _, c := range rest {
				if c.ID == begun {
					victim = c
				}
			}
		}
		o := NewObs(&victim)
		o.Status = "died"
		if cb, e := os.ReadFile(filepath.Join(dir, "canary.bin")); e == nil {
			if len(cb) > 512 {
				cb = cb[:512]
			}
			tail = fmt.Sprintf("last input written before the call (%d bytes shown): %x\n%s", len(cb), cb, tail)
		}
		o.Stderr = tail
		o.Note = fmt.Sprintf("worker exit: %v", err)
		rc.mu.Lock()
		rc.obs[victim.ID] = o
		rc.deaths++
		rc.mu.Unlock()
		var next []Case
		for _, c := range rest {
			if c.ID != victim.ID {
				next = append(next, c)
			}
		}
		cases = next
		os.RemoveAll(dir)
		if attempt > 200 {
			for _, c := range cases {
				o := NewObs(&c)
				o.Status = "inconclusive"
				o.Note = "too many worker restarts"
				rc.mu.Lock()
				rc.obs[c.ID] = o
				rc.mu.Unlock()
			}
			return
		}
	}
}

func tailFile(path string, n int) string {
	b, err := os.ReadFile(path)
	if err != nil {
		return ""
	}
	if len(b) > n {
		// keep the head of a fatal error if present
		if i := bytes.Index(b, []byte("fatal error:")); i >= 0 && len(b)-i > n {
			return string(b[i : i+n])
		}
		if i := bytes.Index(b, []byte("panic:")); i >= 0 && len(b)-i > n {
			return string(b[i : i+n])
		}
		b = b[len(b)-n:]
	}
	return string(b)
}

// DeathSite names the first wrgl frame in a crash dump.
func DeathSite(stderr string) string {
	kind := "exit"
	switch {
	case strings.Contains(stderr, "fatal error: runtime: out of memory"), strings.Contains(stderr, "cannot allocate memory"), strings.Contains(stderr, "out of memory"):
		kind = "oom"
	case strings.Contains(stderr, "fatal error: checkptr"):
		kind = "checkptr"
	case strings.Contains(stderr, "all goroutines are asleep"):
		kind = "deadlock"
	case strings.Contains(stderr, "fatal error:"):
		kind = "fatal"
	case strings.Contains(stderr, "panic:"):
		kind = "panic"
	}
	return kind + "/" + PanicSite(stderr)
}

// SuperMain runs a whole check. Returns the process exit code.
func SuperMain(propID, tier string, replayCase *Case) int {
	p := Get(propID)
	if p == nil {
		fmt.Fprintf(os.Stderr, "unknown property %s (have %v)\n", propID, IDs())
		return 2
	}
	start := time.Now()
	seed := envSeed()
	self, _ := os.Executable()
	rc := &runCtx{p: p, tier: tier, seed: seed, binDir: filepath.Dir(self), obs: map[string]*Obs{}}
	var err error
	rc.scratch, err = os.MkdirTemp("", "vcheck-"+propID+"-")
	if err != nil {
		fmt.Fprintln(os.Stderr, err)
		return 2
	}
	defer os.RemoveAll(rc.scratch)

	var cases []Case
	if replayCase != nil {
		cases = []Case{*replayCase}
	} else {
		cases = p.Gen(tier, seed)
	}
	replayDir := filepath.Join(VerifDir, "evidence", "replays", propID)
	if replayCase == nil {
		os.RemoveAll(replayDir)
	}
	os.MkdirAll(replayDir, 0755)

	workers := p.Workers
	if workers <= 0 {
		workers = 16
	}
	if s := os.Getenv("VERIF_WORKERS"); s != "" {
		if n, e := strconv.Atoi(s); e == nil && n > 0 {
			workers = n
		}
	}
	csize := (len(cases) + workers*6 - 1) / (workers * 6)
	if csize < 1 {
		csize = 1
	}
	if csize > 400 {
		csize = 400
	}
	var chunks []chunk
	for i := 0; i < len(cases); i += csize {
		j := i + csize
		if j > len(cases) {
			j = len(cases)
		}
		chunks = append(chunks, chunk{idx: len(chunks), cases: cases[i:j]})
	}
	q := make(chan chunk)
	var wg sync.WaitGroup
	for w := 0; w < workers; w++ {
		wg.Add(1)
		go func() {
			defer wg.Done()
			for ch := range q {
				rc.runChunk(ch)
			}
		}()
	}
	for _, ch := range chunks {
		q <- ch
	}
	close(q)
	wg.Wait()

	// aggregate in case order
	obs := make([]*Obs, 0, len(cases))
	byID := map[string]*Case{}
	for i := range cases {
		c := &cases[i]
		byID[c.ID] = c
		o := rc.obs[c.ID]
		if o == nil {
			o = NewObs(c)
			o.Status = "inconclusive"
			o.Note = "no observation"
		}
		if o.Status == "died" {
			cls := c.Kind
			if p.Classify != nil {
				if pn := Catch(func() { cls = p.Classify(c) }); pn != "" {
					cls = c.Kind
				}
			}
			o.Violate("process-death/"+cls+"/"+DeathSite(o.Stderr), "worker process died while running this case: %s\n%s", o.Note, o.Stderr)
		}
		obs = append(obs, o)
	}
	agg := &Obs{ID: propID + "-post", Status: "ok", Events: map[string]int64{}, Sets: map[string][]string{}}
	var inconclusive []string
	if p.Post != nil && replayCase == nil {
		inconclusive = p.Post(tier, obs, agg)
	}
	events := map[string]int64{}
	keys := map[string]bool{}
	sets := map[string]map[string]bool{}
	var samples []interface{}
	all := append(append([]*Obs{}, obs...), agg)
	for _, o := range all {
		for k, v := range o.Events {
			if strings.HasPrefix(k, "max_") {
				if v > events[k] {
					events[k] = v
				}
			} else {
				events[k] += v
			}
		}
		for _, k := range o.Keys {
			keys[k] = true
		}
		for n, vs := range o.Sets {
			if sets[n] == nil {
				sets[n] = map[string]bool{}
			}
			for _, v := range vs {
				sets[n][v] = true
			}
		}
		if o.Status == "timeout" || o.Status == "inconclusive" {
			inconclusive = append(inconclusive, fmt.Sprintf("%s: %s %s", o.ID, o.Status, firstLine(o.Note)))
		}
	}
	// samples: spread over the case list
	step := len(obs)/6 + 1
	for i := 0; i < len(obs); i += step {
		if obs[i].Sample != nil {
			samples = append(samples, map[string]interface{}{"case": obs[i].ID, "kind": byID[obs[i].ID].Kind, "observed": obs[i].Sample})
		}
	}
	if len(samples) == 0 {
		for _, o := range obs {
			if o.Sample != nil {
				samples = append(samples, map[string]interface{}{"case": o.ID, "kind": byID[o.ID].Kind, "observed": o.Sample})
				if len(samples) >= 4 {
					break
				}
			}
		}
	}

	// classify violations
	findings := LoadFindings()
	knownSeen := map[string]int{}
	type uv struct {
		prop, sig, replay string
		n                 int
	}
	unlisted := map[string]*uv{}
	var unlistedOrder []string
	replaysPerSig := map[string]int{}
	nviol := 0
	for _, o := range all {
		for _, v := range o.Viols {
			nviol++
			vp := v.Prop
			if vp == "" {
				vp = propID
			}
			known := false
			for _, f := range findings {
				if f.Prop == vp && GlobMatch(f.Sig, v.Sig) {
					known = true
					knownSeen[f.Prop+" "+f.Sig+" "+f.Text]++
				}
			}
			k := vp + " " + v.Sig
			replaysPerSig[k]++
			var rp string
			if replaysPerSig[k] <= 3 {
				rp = filepath.Join(replayDir, sanitize(o.ID)+".json")
				rep := map[string]interface{}{"case": byID[o.ID], "observation": o, "repo": repoState()}
				b, _ := json.MarshalIndent(rep, "", " ")
				os.WriteFile(rp, b, 0644)
			}
			if !known {
				if unlisted[k] == nil {
					unlisted[k] = &uv{prop: vp, sig: v.Sig, replay: rp}
					unlistedOrder = append(unlistedOrder, k)
				}
				unlisted[k].n++
			}
		}
	}
	var kfLines []string
	for k := range knownSeen {
		kfLines = append(kfLines, k)
	}
	sort.Strings(kfLines)
	var kfSeen []string
	for _, k := range kfLines {
		parts := strings.SplitN(k, " ", 3)
		fmt.Printf("KNOWN-FINDING: property=%s sig=%s %s (seen %d times)\n", parts[0], parts[1], parts[2], knownSeen[k])
		kfSeen = append(kfSeen, parts[0]+" "+parts[1])
	}
	for _, k := range unlistedOrder {
		u := unlisted[k]
		fmt.Printf("VIOLATION property=%s replay=%s sig=%s count=%d\n", u.prop, u.replay, u.sig, u.n)
	}
	for _, s := range inconclusive {
		fmt.Printf("INCONCLUSIVE property=%s %s\n", propID, s)
	}

	if replayCase != nil {
		b, _ := json.MarshalIndent(obs[0], "", " ")
		fmt.Println(string(b))
	} else {
		setCounts := map[string]int{}
		for n, m := range sets {
			setCounts[n] = len(m)
		}
		if len(samples) == 0 {
			samples = append(samples, map[string]interface{}{"case": "(none)", "note": "no case produced a sample"})
		}
		ev := map[string]interface{}{
			"property_id": propID,
			"tier":        tier,
			"seed":        seed,
			"level":       p.Level,
			"coverage": map[string]interface{}{
				"evaluations":         len(cases) + int(events["oracle_evaluations"]),
				"cases":               len(cases),
				"distinct_nontrivial": len(keys),
				"rule":                p.Rule,
				"samples":             samples,
				"observed":            events,
				"distinct_sets":       setCounts,
				"worker_deaths":       rc.deaths,
			},
			"assumptions":         p.Assumptions,
			"wall_s":              time.Since(start).Seconds(),
			"violations":          nviol,
			"unlisted_violations": len(unlisted),
			"known_findings_seen": kfSeen,
			"inconclusive":        inconclusive,
			"repo":                repoState(),
		}
		b, _ := json.MarshalIndent(ev, "", " ")
		os.MkdirAll(filepath.Join(VerifDir, "evidence"), 0755)
		os.WriteFile(filepath.Join(VerifDir, "evidence", propID+".json"), b, 0644)
	}
	evs, _ := json.Marshal(events)
	fmt.Printf("SUMMARY property=%s tier=%s seed=%d cases=%d distinct=%d violations=%d unlisted=%d deaths=%d wall=%.1fs observed=%s\n",
		propID, tier, seed, len(cases), len(keys), nviol, len(unlisted), rc.deaths, time.Since(start).Seconds(), evs)
	if len(unlisted) > 0 {
		return 1
	}
	if len(inconclusive) > 0 {
		return 2
	}
	return 0
}

// GlobMatch matches a known-finding signature pattern: '*' stands for any run of characters.
func GlobMatch(pattern, s string) bool {
	if !strings.Contains(pattern, "*") {
		return pattern == s
	}
	parts := strings.Split(pattern, "*")
	if !strings.HasPrefix(s, parts[0]) {
		return false
	}
	s = s[len(parts[0]):]
	for i := 1; i < len(parts)-1; i++ {
		j := strings.Index(s, parts[i])
		if j < 0 {
			return false
		}
		s = s[j+len(parts[i]):]
	}
	return strings.HasSuffix(s, parts[len(parts)-1])
}

func firstLine(s string) string {
	if i := strings.IndexByte(s, '\n'); i >= 0 {
		s = s[:i]
	}
	if len(s) > 200 {
		s = s[:200]
	}
	return s
}

func sanitize(s string) string {
	return strings.Map(func(r rune) rune {
		if r == '/' || r == ' ' {
			return '_'
		}
		return r
	}, s)
}

var repoStateOnce sync.Once
var repoStateVal string

func repoState() string {
	repoStateOnce.Do(func() {
		out, _ := exec.Command("git", "-C", "/repo", "rev-parse", "--short", "HEAD").Output()
		st, _ := exec.Command("git", "-C", "/repo", "status", "--porcelain").Output()
		repoStateVal = strings.TrimSpace(string(out))
		if len(bytes.TrimSpace(st)) > 0 {
			repoStateVal += "-dirty"
		}
	})
	return repoStateVal
}
