package props

import (
	"errors"
	"fmt"
	"io"
	"math/rand"
	"time"

	"github.com/wrgl/wrgl/pkg/ref"

	"verif/fw"
	"verif/mon"
)

// C11 — ancestry queries and merge-base selection agree with the commit graph.

type c11Params struct {
	N      int     `json:"n"`
	From   int     `json:"from"` // shape index range [From, To) for exhaustive kinds
	To     int     `json:"to"`
	Mode   string  `json:"mode"` // increasing | equal | decreasing | random
	Random bool    `json:"random"`
	Many   bool    `json:"many,omitempty"`  // random DAGs of 60..150 commits, merge bases of up to 130 heads
	Shape  [][]int `json:"shape,omitempty"` // fixed corpus
}

// parentChoices(i) enumerates the parent sets (size <= 2) of commit i among 0..i-1.
func parentChoices(i int) [][]int {
	out := [][]int{{}}
	for a := 0; a < i; a++ {
		out = append(out, []int{a})
	}
	for a := 0; a < i; a++ {
		for b := a + 1; b < i; b++ {
			out = append(out, []int{a, b})
		}
	}
	return out
}

func shapeCount(n int) int {
	c := 1
	for i := 0; i < n; i++ {
		c *= len(parentChoices(i))
	}
	return c
}

// shapeAt decodes the idx-th labelled DAG with n commits.
func shapeAt(n, idx int) [][]int {
	sh := make([][]int, n)
	for i := 0; i < n; i++ {
		ch := parentChoices(i)
		sh[i] = ch[idx%len(ch)]
		idx /= len(ch)
	}
	return sh
}

type dag struct {
	parents [][]int
	sums    [][]byte
	index   map[string]int
	anc     []map[int]bool // ancestors-or-self
	db      *mon.MemStore
}

func buildDag(parents [][]int, mode string, rng *rand.Rand) (*dag, error) {
	n := len(parents)
	d := &dag{parents: parents, sums: make([][]byte, n), index: map[string]int{}, anc: make([]map[int]bool, n), db: mon.NewMemStore()}
	base := int64(1600000000)
	for i := 0; i < n; i++ {
		var t int64
		switch mode {
		case "increasing":
			t = base + int64(i)*10
		case "equal":
			t = base
		case "decreasing":
			t = base - int64(i)*10
		default:
			t = base + int64(rng.Intn(4))*10
		}
		var ps [][]byte
		for _, p := range parents[i] {
			ps = append(ps, d.sums[p])
		}
		table := make([]byte, 16)
		table[0] = byte(i)
		sum, _, err := mon.SaveCommitObj(d.db, table, ps, fmt.Sprintf("c%d", i), time.Unix(t, 0))
		if err != nil {
			return nil, err
		}
		d.sums[i] = sum
		d.index[string(sum)] = i
		d.anc[i] = map[int]bool{i: true}
		for _, p := range parents[i] {
			for a := range d.anc[p] {
				d.anc[i][a] = true
			}
		}
	}
	return d, nil
}

// c11ManyTuples: how many tuples of 5..130 heads c11CheckDag tries on the DAG at hand (a worker runs one case at a time).
var c11ManyTuples int

func c11CheckDag(o *fw.Obs, d *dag, mode string, rng *rand.Rand, tupleBudget int) {
	n := len(d.parents)
	// IsAncestorOf for all ordered pairs
	for a := 0; a < n; a++ {
		for b := 0; b < n; b++ {
			got, err := ref.IsAncestorOf(d.db, d.sums[a], d.sums[b])
			o.Ev("oracle_evaluations", 1)
			o.Ev("is_ancestor_queries", 1)
			if err != nil {
				o.Violate("error/IsAncestorOf/"+mode, "IsAncestorOf(%d,%d) on %v: %v", a, b, d.parents, err)
				return
			}
			if got != d.anc[b][a] {
				o.Violate("wrong-answer/IsAncestorOf/"+mode, "IsAncestorOf(%d,%d)=%v but graph says %v; parents=%v mode=%s", a, b, got, d.anc[b][a], d.parents, mode)
				return
			}
		}
	}
	// a history walk visits every ancestor exactly once
	for h := 0; h < n; h++ {
		q, err := ref.NewCommitsQueue(d.db, [][]byte{d.sums[h]})
		if err != nil {
			o.Violate("error/CommitsQueue/"+mode, "%v", err)
			return
		}
		seen := map[int]int{}
		for {
			sum, _, err := q.PopInsertParents()
			if errors.Is(err, io.EOF) {
				break
			}
			if err != nil {
				o.Violate("error/PopInsertParents/"+mode, "%v", err)
				return
			}
			seen[d.index[string(sum)]]++
			if len(seen) > n+1 {
				break
			}
		}
		o.Ev("oracle_evaluations", 1)
		o.Ev("walks", 1)
		for a := 0; a < n; a++ {
			want := 0
			if d.anc[h][a] {
				want = 1
			}
			if seen[a] != want {
				o.Violate("walk-not-each-ancestor-once/PopInsertParents/"+mode, "walk from %d visited commit %d %d times (ancestor: %v); parents=%v mode=%s", h, a, seen[a], d.anc[h][a], d.parents, mode)
				return
			}
		}
	}
	// merge base for tuples
	check := func(tuple []int) bool {
		heads := make([][]byte, len(tuple))
		for i, t := range tuple {
			heads[i] = d.sums[t]
		}
		var base []byte
		var err error
		if pn := fw.Catch(func() { base, err = ref.SeekCommonAncestor(d.db, heads...) }); pn != "" {
			o.Violate("panic/SeekCommonAncestor/"+headsClass(len(tuple)), "tuple %v parents=%v mode=%s: %s", tuple, d.parents, mode, pn)
			return false
		}
		o.Ev("oracle_evaluations", 1)
		o.Ev(fmt.Sprintf("merge_base_%d_heads", len(tuple)), 1)
		// model
		common := map[int]bool{}
		for a := 0; a < n; a++ {
			all := true
			for _, t := range tuple {
				if !d.anc[t][a] {
					all = false
					break
				}
			}
			if all {
				common[a] = true
			}
		}
		hc := headsClass(len(tuple)) + "/" + mode
		if len(common) == 0 {
			o.Ev("tuples_without_common_ancestor", 1)
			if err == nil {
				o.Violate("base-reported-when-none-exists/SeekCommonAncestor/"+hc, "tuple %v: returned %d although no common ancestor exists; parents=%v", tuple, d.index[string(base)], d.parents)
				return false
			}
			return true
		}
		if err != nil {
			o.Violate("base-missing/SeekCommonAncestor/"+hc, "tuple %v: error %q although common ancestors %v exist; parents=%v mode=%s", tuple, err, keysOf(common), d.parents, mode)
			return false
		}
		bi, ok := d.index[string(base)]
		if !ok || !common[bi] {
			o.Violate("base-not-common-ancestor/SeekCommonAncestor/"+hc, "tuple %v: base %d is not an ancestor of all inputs (common ancestors: %v); parents=%v mode=%s", tuple, bi, keysOf(common), d.parents, mode)
			return false
		}
		inputCommon := false
		baseIsInput := false
		for _, t := range tuple {
			if common[t] {
				inputCommon = true
			}
			if t == bi {
				baseIsInput = true
			}
		}
		if inputCommon {
			o.Ev("tuples_with_input_as_base", 1)
			if !(baseIsInput && common[bi]) {
				o.Violate("input-ancestor-not-chosen/SeekCommonAncestor/"+hc, "tuple %v: an input is an ancestor of all others but base %d was chosen; parents=%v mode=%s", tuple, bi, d.parents, mode)
				return false
			}
		}
		return true
	}
	for a := 0; a < n; a++ {
		for b := 0; b < n; b++ {
			if !check([]int{a, b}) {
				return
			}
		}
	}
	if n <= 5 {
		for a := 0; a < n; a++ {
			for b := 0; b < n; b++ {
				for c := 0; c < n; c++ {
					if !check([]int{a, b, c}) {
						return
					}
				}
			}
		}
	}
	for i := 0; i < tupleBudget; i++ {
		k := 3 + rng.Intn(2)
		t := make([]int, k)
		for j := range t {
			t[j] = rng.Intn(n)
		}
		if !check(t) {
			return
		}
	}
	// "any number of commits": tuples of 5..130 heads (around 32, 64 and 128 in particular)
	for i := 0; i < c11ManyTuples; i++ {
		k := []int{5, 8, 16, 31, 32, 33, 63, 64, 65, 66, 100, 127, 128, 129, 130}[rng.Intn(15)]
		t := make([]int, k)
		if rng.Intn(2) == 0 {
			// all but the last few inputs from the descendants of one commit, the rest from anywhere
			r := rng.Intn(n)
			var desc []int
			for x := 0; x < n; x++ {
				if d.anc[x][r] {
					desc = append(desc, x)
				}
			}
			for j := range t {
				t[j] = desc[rng.Intn(len(desc))]
			}
			for j := k - 1 - rng.Intn(3); j < k; j++ {
				t[j] = rng.Intn(n)
			}
		} else {
			for j := range t {
				t[j] = rng.Intn(n)
			}
		}
		o.Ev("merge_base_tuples_of_5_to_130_heads", 1)
		if !check(t) {
			return
		}
	}
}

func headsClass(k int) string {
	if k == 2 {
		return "heads=2"
	}
	return "heads>=3"
}

func keysOf(m map[int]bool) []int {
	var r []int
	for k := range m {
		r = append(r, k)
	}
	for i := 0; i < len(r); i++ {
		for j := i + 1; j < len(r); j++ {
			if r[j] < r[i] {
				r[i], r[j] = r[j], r[i]
			}
		}
	}
	return r
}

func c11Run(c *fw.Case, env *fw.Env) *fw.Obs {
	o := fw.NewObs(c)
	var p c11Params
	c.P(&p)
	rng := c.Rand()
	run := func(parents [][]int, mode string, budget int) {
		d, err := buildDag(parents, mode, rng)
		if err != nil {
			o.Status = "inconclusive"
			o.Note = err.Error()
			return
		}
		c11CheckDag(o, d, mode, rng, budget)
		for k := 0; k < 3 && len(o.Viols) == 0; k++ {
			c11QueueProgram(o, d, mode, rng)
		}
		o.Ev("dags", 1)
		merges := 0
		for _, ps := range parents {
			if len(ps) > 1 {
				merges++
			}
		}
		if len(parents) >= 2 {
			o.Key("%v/%s", parents, mode)
		}
		if merges > 0 {
			o.Ev("dags_with_merges", 1)
		}
	}
	switch {
	case p.Shape != nil:
		for _, m := range []string{"increasing", "equal", "decreasing", "random"} {
			run(p.Shape, m, 30)
		}
	case p.Random:
		defer func() { c11ManyTuples = 0 }()
		for i := 0; i < 12; i++ {
			n := 7 + rng.Intn(24)
			c11ManyTuples = 0
			if p.Many {
				if i >= 3 {
					break
				}
				n = 60 + rng.Intn(90)
				c11ManyTuples = 60
			}
			parents := make([][]int, n)
			for j := 1; j < n; j++ {
				k := rng.Intn(4) // octopus merges allowed
				if rng.Intn(3) > 0 && k == 0 {
					k = 1
				}
				seen := map[int]bool{}
				for len(parents[j]) < k && len(parents[j]) < j {
					var a int
					if rng.Intn(2) == 0 {
						a = j - 1 - rng.Intn(min(j, 3))
					} else {
						a = rng.Intn(j)
					}
					if !seen[a] {
						seen[a] = true
						parents[j] = append(parents[j], a)
					}
				}
			}
			run(parents, []string{"increasing", "equal", "decreasing", "random"}[rng.Intn(4)], 40)
		}
	default:
		for idx := p.From; idx < p.To; idx++ {
			budget := 0
			if p.N >= 6 {
				budget = 20
			}
			run(shapeAt(p.N, idx), p.Mode, budget)
			if len(o.Viols) > 6 {
				break
			}
		}
	}
	o.Sample = map[string]interface{}{"n": p.N, "shapes": fmt.Sprintf("[%d,%d)", p.From, p.To), "mode": p.Mode, "first_shape": shapeAt(max(p.N, 1), p.From), "dags": o.Events["dags"], "evaluations": o.Events["oracle_evaluations"]}
	return o
}

func min(a, b int) int {
	if a < b {
		return a
	}
	return b
}
func max(a, b int) int {
	if a > b {
		return a
	}
	return b
}

func init() {
	fw.Register(&fw.Property{
		ID:          "C11",
		Level:       "exploration",
		Rule:        "all labelled commit DAGs with <=2 parents per commit for n<=5 (616 shapes; thorough n<=6, 9856 shapes) x timestamp modes {increasing, equal, decreasing, random with ties}: IsAncestorOf for all ordered pairs, three seeded programs of interrupted and resumed walks on CommitsQueue (pop-and-insert-parents, RemoveAncestors, PopUntil, Seen) against a pending-set model incl. the commit object handed out with every sum, a PopInsertParents walk from every head, SeekCommonAncestor for all ordered pairs and (n<=5) all ordered triples plus sampled 3/4-tuples, each compared with ancestor sets computed by the harness; plus seeded random DAGs to n=30 with octopus merges, and DAGs of 60..150 commits with merge bases of 5..130 heads; distinct_nontrivial = distinct (shape, timestamp mode) with >=2 commits; exhaustive within the stated bound",
		Assumptions: []string{"which common ancestor is chosen is free unless an input is itself a common ancestor"},
		Gen: func(tier string, seed int64) []fw.Case {
			l := fw.NewCaseList("C11", tier, seed)
			// fixed corpus: witnesses of the multi-head defect
			for i, sh := range [][][]int{
				{{}, {0}, {0}, {1, 2}, {1}},
				{{}, {}, {0, 1}, {0}, {2, 3}},
				{{}, {0}, {1}, {0}, {2, 3}},
			} {
				l.Add("fixed", c11Params{Shape: sh, N: len(sh)}, int64(40+i))
			}
			maxN := 5
			if tier == "thorough" {
				maxN = 6
			}
			for n := 1; n <= maxN; n++ {
				total := shapeCount(n)
				step := 40
				if n == 6 {
					step = 80
				}
				for _, m := range []string{"increasing", "equal", "decreasing", "random"} {
					for from := 0; from < total; from += step {
						to := from + step
						if to > total {
							to = total
						}
						l.Add("exhaustive", c11Params{N: n, From: from, To: to, Mode: m}, 0)
					}
				}
			}
			for i := 0; i < l.N(30, 2000); i++ {
				l.Add("random", c11Params{Random: true}, 0)
				if i%4 == 0 {
					l.Add("random-many", c11Params{Random: true, Many: true}, 0)
				}
			}
			return l.Cases
		},
		Run: c11Run,
	})
}
