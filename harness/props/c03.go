package props

import (
	"bytes"
	"context"
	"fmt"
	"sort"
	"time"

	"github.com/go-logr/logr"
	"github.com/wrgl/wrgl/pkg/conf"
	"github.com/wrgl/wrgl/pkg/doctor"
	"github.com/wrgl/wrgl/pkg/ingest"
	"github.com/wrgl/wrgl/pkg/objects"
	"github.com/wrgl/wrgl/pkg/ref"
	"github.com/wrgl/wrgl/pkg/sorter"

	"verif/fw"
	"verif/gen"
	"verif/mon"
)

// C03 — every stored table is structurally sound and its indices agree with its rows.

type c03Params struct {
	Producer string  `json:"producer"` // ingest | doctor | reingest
	T        tblSpec `json:"t"`
	Cfg      ingCfg  `json:"cfg"`
	Defect   string  `json:"defect,omitempty"` // duprows | rowcount
	UseIndex bool    `json:"use_index,omitempty"`
}

func c03Run(c *fw.Case, env *fw.Env) *fw.Obs {
	o := fw.NewObs(c)
	var p c03Params
	c.P(&p)
	t := p.T.build()
	cols, rows, err := gen.ParseCSV(gen.ToCSV(t, 0), 0)
	if err != nil {
		o.Status = "inconclusive"
		o.Note = err.Error()
		return o
	}
	class := pkClass(p.T.PK) + "/" + sizeClass(len(rows))
	model := gen.Model(rows, p.T.PK, len(cols))
	if model.Dups > 0 {
		class += "/dups"
	}
	report := func(producer string, db objects.Store, sum []byte, wantRows bool) {
		tc, issues := mon.CheckTable(db, sum, mon.CheckOpts{Doctor: true})
		o.Ev("oracle_evaluations", 1)
		o.Ev("tables_checked_"+producer, 1)
		for _, is := range issues {
			o.Violate(is.Clause+"/"+producer+"/"+class, "%s", is.Detail)
		}
		if tc != nil {
			o.Ev("rows_checked", int64(len(tc.Rows)))
			o.Ev("blocks_checked", int64(len(tc.Table.Blocks)))
			if len(tc.Table.Blocks) > 1 {
				o.Ev("multiblock_tables", 1)
			}
			if wantRows {
				if cl, d := model.Compare(tc.Rows); cl != "" {
					o.Violate(cl+"/"+producer+"/"+class, "%s", d)
				}
			}
		}
	}
	switch p.Producer {
	case "ingest":
		res := runIngest(env, c.ID, gen.ToCSV(t, delimRune(p.Cfg.Delim)), gen.ColNames(cols, p.T.PK), p.Cfg, nil)
		defer res.Close()
		if res.Err != nil || res.Panic != "" {
			o.Violate("ingest-failed/ingest/"+class, "err=%v panic=%s", res.Err, res.Panic)
			return o
		}
		report("ingest", res.DB, res.Sum, true)
		o.Set("config", cfgString(p.Cfg))
	case "doctor", "reingest":
		// a defective table: key-sorted rows with whole-row duplicates left in, or a wrong row count
		db := mon.NewMemStore()
		sorted := make([][]string, 0, len(rows))
		for _, k := range model.Keys {
			cands := model.ByKey[keyStr(k)]
			sorted = append(sorted, cands[0])
		}
		raw := sorted
		rowsCount := -1
		if p.Defect == "duprows" {
			raw = nil
			for i, r := range sorted {
				raw = append(raw, r)
				if i%7 == 3 || i == len(sorted)-1 {
					raw = append(raw, append([]string(nil), r...))
				}
			}
		} else {
			// a wrong row count that keeps the number of blocks (otherwise the table cannot even be decoded
			// and doctor removes the commit instead of re-ingesting: no table is produced)
			rowsCount = len(sorted) + 1
			if len(sorted)%255 == 0 {
				rowsCount = len(sorted) - 1
			}
		}
		if len(sorted) == 0 {
			return o
		}
		// expected content after repair: the distinct rows
		for k := range model.ByKey {
			model.ByKey[k] = model.ByKey[k][:1]
		}
		sum, err := mon.BuildTableRaw(db, cols, toU32(p.T.PK), raw, rowsCount)
		if err != nil {
			o.Status = "inconclusive"
			o.Note = "BuildTableRaw: " + err.Error()
			return o
		}
		if p.Producer == "reingest" {
			tbl, _ := objects.GetTable(db, sum)
			s, _ := sorter.NewSorter(sorter.WithRunSize(runSizeFor(p.Cfg.Chunks, raw)))
			var nsum []byte
			var rerr error
			if pn := fw.Catch(func() {
				nsum, rerr = ingest.ReingestTable(db, s, tbl, p.UseIndex, logr.Discard(), ingest.WithNumWorkers(p.Cfg.Workers))
			}); pn != "" {
				o.Violate("panic/reingest/"+class, "%s", pn)
				return o
			}
			s.Close()
			if rerr != nil {
				o.Violate("reingest-error/reingest/"+class, "%v", rerr)
				return o
			}
			if nsum == nil {
				if p.Defect == "duprows" {
					o.Violate("duplicates-not-detected/reingest/"+class, "ReingestTable returned no new table for a table with duplicated rows (useBlockIndex=%v)", p.UseIndex)
				}
				return o
			}
			report("reingest", db, nsum, true)
			return o
		}
		rs, sdb, err := mon.NewMemRefStore()
		if err != nil {
			o.Status = "inconclusive"
			o.Note = err.Error()
			return o
		}
		defer sdb.Close()
		// keyless tables: an older commit of the same branch holds a second defective table with fewer columns, so that
		// one Resolve call re-ingests tables of different widths
		var parents [][]byte
		var sum2 []byte
		if len(p.T.PK) == 0 && len(cols) >= 2 {
			w2 := (len(cols) + 1) / 2
			seen := map[string]bool{}
			var proj [][]string
			for _, r := range sorted {
				k := keyStr(r[:w2])
				if !seen[k] {
					seen[k] = true
					proj = append(proj, append([]string(nil), r[:w2]...))
				}
			}
			sort.Slice(proj, func(i, j int) bool {
				return bytes.Compare(mon.EncodeStrList(proj[i]), mon.EncodeStrList(proj[j])) < 0
			})
			var raw2 [][]string
			for i, r := range proj {
				raw2 = append(raw2, r)
				if i%5 == 1 || i == len(proj)-1 {
					raw2 = append(raw2, append([]string(nil), r...))
				}
			}
			if s2, err := mon.BuildTableRaw(db, cols[:w2], nil, raw2, -1); err == nil {
				sum2 = s2
				psum, _, _ := mon.SaveCommitObj(db, s2, nil, "older broken", time.Unix(1599990000, 0))
				parents = [][]byte{psum}
			}
		}
		csum, com, _ := mon.SaveCommitObj(db, sum, parents, "broken", time.Unix(1600000000, 0))
		ref.CommitHead(rs, "main", csum, com, nil)
		d := doctor.NewDoctor(db, rs, conf.User{Name: "v", Email: "v@v"}, logr.Discard())
		ctx, cancel := context.WithCancel(context.Background())
		defer cancel()
		ch, errCh, err := d.Diagnose(ctx, []string{"heads/"}, nil, nil)
		if err != nil {
			o.Violate("diagnose-error/doctor/"+class, "%v", err)
			return o
		}
		var issues []*doctor.Issue
		for ri := range ch {
			issues = append(issues, ri.Issues...)
		}
		if e, ok := <-errCh; ok && e != nil {
			o.Violate("diagnose-error/doctor/"+class, "%v", e)
			return o
		}
		if len(issues) == 0 {
			o.Violate("defect-not-diagnosed/doctor/"+class, "doctor found no issue in a table with defect %s", p.Defect)
			return o
		}
		o.Ev("doctor_issues", int64(len(issues)))
		var rerr error
		if pn := fw.Catch(func() { rerr = d.Resolve(issues) }); pn != "" {
			o.Violate("panic/doctor-resolve/"+class, "%s", pn)
			return o
		}
		if rerr != nil {
			o.Violate("resolve-error/doctor/"+class, "%v", rerr)
			return o
		}
		head, err := ref.GetHead(rs, "main")
		if err != nil {
			o.Violate("resolve-lost-ref/doctor/"+class, "%v", err)
			return o
		}
		ncom, err := objects.GetCommit(db, head)
		if err != nil {
			o.Violate("resolve-bad-commit/doctor/"+class, "%v", err)
			return o
		}
		if bytes.Equal(ncom.Table, sum) {
			// doctor did not re-ingest (it removed or kept the commit): no table was produced by it
			o.Ev("doctor_did_not_reingest", 1)
			return o
		}
		report("doctor-resolve", db, ncom.Table, true)
		if sum2 != nil && len(ncom.Parents) == 1 {
			if pcom, err := objects.GetCommit(db, ncom.Parents[0]); err == nil && !bytes.Equal(pcom.Table, sum2) {
				report("doctor-resolve-older-commit", db, pcom.Table, false)
			}
		}
	}
	if len(rows) >= 2 {
		o.Key("%s/%s/%s/%d", p.Producer, p.Defect, class, p.T.TableSeed%1000000)
	}
	o.Sample = map[string]interface{}{"producer": p.Producer, "defect": p.Defect, "rows": len(rows), "distinct_keys": len(model.Keys), "pk": p.T.PK, "cfg": p.Cfg}
	return o
}

func keyStr(k []string) string {
	s := ""
	for _, c := range k {
		s += fmt.Sprintf("%d:", len(c)) + c
	}
	return s
}

var _ = sort.Strings

func init() {
	fw.Register(&fw.Property{
		ID:          "C03",
		Level:       "exploration",
		Rule:        "every table emitted by each producer (ingest under all C01 configurations with block-edge row counts 0,1,254,255,256,509,510,511,765 and duplicates at block edges; doctor resolve and ReingestTable over tables fabricated with duplicated rows / a wrong row count) goes through the structural monitor: row count, block sizes, strictly increasing keys, block index entries = keyhash|rowhash from an independent encoder with exact lookups and byte-identical recomputation, table index = first key per block, profile row count, doctor reports no issue; merge results and received tables are checked by the same monitor inside C05/C07/C09; distinct_nontrivial = distinct (producer, defect, key class, size class, table seed) with >=2 rows",
		Assumptions: []string{"doctor's own blind spots bound clause 'no issue from diagnosis'"},
		Gen: func(tier string, seed int64) []fw.Case {
			l := fw.NewCaseList("C03", tier, seed)
			rng := l.Rng()
			edge := []int{0, 1, 254, 255, 256, 509, 510, 511, 765}
			for _, n := range edge {
				for _, pk := range [][]int{{0}, nil, {1, 0}} {
					for _, dupAt := range [][]int{nil, {254}, {255}, {256}} {
						if n < 257 && dupAt != nil {
							continue
						}
						s := tblSpec{Rows: n + len(dupAt), NCols: 3, Style: int(gen.CellSimple), PK: pk, TableSeed: rng.Int63(), DupAt: dupAt}
						l.Add("ingest", c03Params{Producer: "ingest", T: s, Cfg: ingCfg{Chunks: []string{"none", "two", "five"}[rng.Intn(3)], Workers: workerChoices[rng.Intn(len(workerChoices))], Store: "mem", Via: "pkg"}}, 0)
					}
				}
			}
			for i := 0; i < l.N(250, 20000); i++ {
				s := randTblSpec(rng, rng.Intn(3) == 0)
				l.Add("ingest", c03Params{Producer: "ingest", T: s, Cfg: randIngCfg(rng, s.Rows)}, 0)
			}
			for i := 0; i < l.N(60, 4000); i++ {
				s := randTblSpec(rng, true)
				if s.Rows < 2 {
					s.Rows = 2 + rng.Intn(600)
				}
				prod := []string{"doctor", "reingest"}[rng.Intn(2)]
				defect := []string{"duprows", "rowcount"}[rng.Intn(2)]
				if prod == "reingest" {
					defect = "duprows"
				}
				l.Add(prod, c03Params{Producer: prod, T: s, Defect: defect, UseIndex: rng.Intn(2) == 0, Cfg: ingCfg{Chunks: []string{"none", "two"}[rng.Intn(2)], Workers: workerChoices[rng.Intn(len(workerChoices))]}}, 0)
			}
			return l.Cases
		},
		Run: c03Run,
	})
}
