package props

import (
	"fmt"
	"strings"

	"verif/fw"
	"verif/gen"
	"verif/mon"
)

// C01 — committing a CSV stores exactly its rows (one per primary key), losslessly.

type c01Params struct {
	T   tblSpec `json:"t"`
	Cfg ingCfg  `json:"cfg"`
}

func c01Run(c *fw.Case, env *fw.Env) *fw.Obs {
	o := fw.NewObs(c)
	var p c01Params
	c.P(&p)
	t := p.T.build()
	delim := delimRune(p.Cfg.Delim)
	csvBytes := gen.ToCSV(t, delim)
	cols, rows, err := gen.ParseCSV(csvBytes, delim)
	if err != nil {
		o.Status = "inconclusive"
		o.Note = "generated CSV does not parse: " + err.Error()
		return o
	}
	pkNames := gen.ColNames(cols, p.T.PK)
	class := pkClass(p.T.PK) + "/" + sizeClass(len(rows))
	mc := maxCell(append([][]string{cols}, rows...))
	over := mc > 65535
	if over {
		class += "/cell>65535"
	} else if rowBytes(rows) > 0 && maxRowBytes(rows) > 65535 {
		class += "/row>64KiB"
	}
	entry := "IngestTable"
	if p.Cfg.Via == "cli" {
		entry = "wrgl-commit"
	} else if p.Cfg.Via == "cli-bf" {
		entry = "wrgl-commit-branch-file"
	} else if p.Cfg.Via == "cli-cfg" {
		entry = "wrgl-commit-configured-file"
	}
	res := runIngest(env, c.ID, csvBytes, pkNames, p.Cfg, nil)
	defer res.Close()
	o.Ev("oracle_evaluations", 1)
	o.Ev("ingests_"+p.Cfg.Via, 1)
	o.Set("config", cfgString(p.Cfg)+"/"+pkClass(p.T.PK))
	sample := map[string]interface{}{"rows": len(rows), "cols": len(cols), "pk": pkNames, "cfg": p.Cfg, "max_cell": mc}
	o.Sample = sample
	if res.Panic != "" {
		o.Violate("panic/"+entry+"/"+class, "panic: %s", res.Panic)
		return o
	}
	if over {
		o.Ev("oversize_cases", 1)
		if res.Err == nil {
			o.Violate("oversize-cell-not-refused/"+entry+"/"+class, "a %d-byte cell was accepted without error (table %x)", mc, res.Sum)
		} else {
			sample["error"] = res.Err.Error()
		}
		if res.Err != nil && res.Sum == nil {
			if len(rows) >= 1 {
				o.Key("oversize/%s/%s", class, cfgString(p.Cfg))
			}
			return o
		}
	} else if res.Err != nil && res.Faulted != "" {
		// a spill file came back one byte short: refusing the ingest is the right answer
		o.Ev("spill_faults_refused", 1)
		o.Key("spill-fault/%s/%s", class, cfgString(p.Cfg))
		return o
	} else if res.Err != nil {
		o.Violate("ingest-error/"+entry+"/"+class, "well-formed CSV (%d rows, max cell %d) refused: %v", len(rows), mc, res.Err)
		return o
	}
	if res.Faulted != "" {
		// accepted although a spill file was short: then the table must still be the file's rows (checked below)
		o.Ev("spill_faults_accepted", 1)
		entry += "/spill-file-short"
	}
	if res.Sum == nil {
		return o
	}
	tc, issues := mon.CheckTable(res.DB, res.Sum, mon.CheckOpts{Doctor: c.Seed%4 == 0})
	for _, is := range issues {
		o.Violate("structure/"+is.Clause+"/"+entry+"/"+class, "%s (cfg %s)", is.Detail, cfgString(p.Cfg))
	}
	if tc == nil {
		return o
	}
	if !strEq(tc.Table.Columns, cols) {
		o.Violate("columns-differ/"+entry+"/"+class, "stored columns %q, CSV header %q", tc.Table.Columns, cols)
		return o
	}
	if res.ConfiguredOtherKey {
		o.Ev("commits_on_a_branch_configured_with_another_key", 1)
	}
	// "every valid primary-key choice": the stored table carries the key that was chosen, not another one
	if len(tc.Table.PK) != len(p.T.PK) {
		o.Violate("stored-key-differs/"+entry+"/"+class, "chosen key %v, the stored table's key is %v (cfg %s)", p.T.PK, tc.Table.PK, cfgString(p.Cfg))
		return o
	}
	for i, k := range tc.Table.PK {
		if int(k) != p.T.PK[i] {
			o.Violate("stored-key-differs/"+entry+"/"+class, "chosen key %v, the stored table's key is %v (cfg %s)", p.T.PK, tc.Table.PK, cfgString(p.Cfg))
			return o
		}
	}
	model := gen.Model(rows, p.T.PK, len(cols))
	if cl, d := model.Compare(tc.Rows); cl != "" {
		o.Violate(cl+"/"+entry+"/"+class, "block read-back (cfg %s): %s", cfgString(p.Cfg), d)
	}
	if p.Cfg.Via == "cli" || p.Cfg.Via == "cli-bf" || p.Cfg.Via == "cli-cfg" {
		// The export is compared with the rows read back from the blocks (already
		// checked against the model), modulo what re-parsing a CSV does to a cell:
		// encoding/csv drops a CR that precedes a LF, also inside quoted fields.
		ecols, erows, err := gen.ParseCSV([]byte(res.Export), 0)
		if err != nil {
			if !(len(cols) == 1 && len(rows) == 0) {
				o.Violate("export-unparsable/wrgl-export/"+class, "export output does not parse: %v", err)
			}
		} else if !strEq(ecols, csvNorm(cols)) {
			o.Violate("columns-differ/wrgl-export/"+class, "exported header %q, CSV header %q", ecols, cols)
		} else if len(erows) != len(tc.Rows) {
			o.Violate("row-count/wrgl-export/"+class, "export has %d rows, table stores %d", len(erows), len(tc.Rows))
		} else {
			for i := range erows {
				if !strEq(erows[i], csvNorm(tc.Rows[i])) {
					o.Violate("row-altered/wrgl-export/"+class, "export row %d = %q, stored row %q", i, erows[i], tc.Rows[i])
					break
				}
			}
		}
		o.Ev("exports_checked", 1)
	}
	o.Ev("rows_in", int64(len(rows)))
	o.Ev("rows_stored", int64(len(tc.Rows)))
	o.Ev("dup_rows", int64(model.Dups))
	if len(tc.Table.Blocks) > 1 {
		o.Ev("multiblock_tables", 1)
	}
	if p.Cfg.Chunks != "none" && p.Cfg.Chunks != "auto" && len(rows) > 1 {
		o.Ev("spilling_configs", 1)
	}
	if p.Cfg.Workers >= 4 {
		o.Ev("multiworker_runs", 1)
	}
	if len(rows) >= 2 {
		o.Key("%s/%s/dups=%v/%d", class, cfgString(p.Cfg), model.Dups > 0, p.T.TableSeed%100000)
	}
	sample["stored_rows"] = len(tc.Rows)
	sample["blocks"] = len(tc.Table.Blocks)
	return o
}

func csvNorm(row []string) []string {
	r := make([]string, len(row))
	for i, c := range row {
		r[i] = strings.ReplaceAll(c, "\r\n", "\n")
	}
	return r
}

func maxRowBytes(rows [][]string) int {
	m := 0
	for _, r := range rows {
		n := 4
		for _, c := range r {
			n += 2 + len(c)
		}
		if n > m {
			m = n
		}
	}
	return m
}

func strEq(a, b []string) bool {
	if len(a) != len(b) {
		return false
	}
	for i := range a {
		if a[i] != b[i] {
			return false
		}
	}
	return true
}

func c01Fixed() []c01Params {
	var out []c01Params
	add := func(t gen.Table, pk []int, cfgs ...ingCfg) {
		if len(cfgs) == 0 {
			cfgs = []ingCfg{{Chunks: "none", Workers: 1, Store: "mem", Via: "pkg"}, {Chunks: "every", Workers: 4, Store: "mem", Via: "pkg"}}
		}
		for _, cfg := range cfgs {
			tt := t
			out = append(out, c01Params{T: tblSpec{Fixed: &tt, PK: pk, NCols: len(t.Cols)}, Cfg: cfg})
		}
	}
	// #1 empty key sorts first
	add(gen.Table{Cols: []string{"a", "b"}, Rows: [][]string{{"", "x"}, {"1", "y"}}}, []int{0})
	add(gen.Table{Cols: []string{"a", "b"}, Rows: [][]string{{"", ""}, {"1", "y"}}}, nil)
	add(gen.Table{Cols: []string{"a", "b", "c"}, Rows: [][]string{{"", "q", ""}, {"", "q", "z"}, {"1", "y", ""}}}, []int{0, 2})
	return out
}

func bigSpecs() []tblSpec {
	var out []tblSpec
	// cells at the 16-bit boundary, in key and non-key columns, first / middle / last column
	for _, ln := range []int{65534, 65535, 65536, 70000} {
		for _, col := range []int{0, 1, 2} {
			out = append(out, tblSpec{Rows: 5, NCols: 3, Style: int(gen.CellSimple), PK: []int{0}, Unique: true, Big: []bigCell{{Row: 2, Col: col, Len: ln}}})
		}
		out = append(out, tblSpec{Rows: 3, NCols: 2, Style: int(gen.CellSimple), PK: nil, Unique: true, Big: []bigCell{{Row: 1, Col: 1, Len: ln}}})
	}
	// rows whose encoded size crosses 64 KiB with 1..3 cells after the crossing
	for after := 1; after <= 3; after++ {
		for _, pk := range [][]int{{0}, {4}, nil, {1, 4}} {
			big := []bigCell{{Row: 1, Col: 1, Len: 40000}, {Row: 1, Col: 2, Len: 30000}}
			out = append(out, tblSpec{Rows: 4, NCols: 2 + 1 + after, Style: int(gen.CellSimple), PK: pkClamp(pk, 3+after), Unique: true, Big: big})
		}
	}
	// several big rows, forcing them through spill chunks too
	out = append(out, tblSpec{Rows: 8, NCols: 4, Style: int(gen.CellSimple), PK: []int{0}, Unique: true, Big: []bigCell{{0, 1, 65535}, {0, 2, 65535}, {3, 1, 50000}, {3, 3, 50000}, {7, 2, 65535}, {7, 3, 1}}})
	return out
}

func pkClamp(pk []int, n int) []int {
	var r []int
	for _, p := range pk {
		if p < n {
			r = append(r, p)
		}
	}
	return r
}

func init() {
	fw.Register(&fw.Property{
		ID:          "C01",
		Level:       "exploration",
		Rule:        "generated CSVs (header names also differing only in case; rows 0..2000 incl. block-edge counts; 1..6 columns; hostile cell alphabet; cells at 65534/65535/65536/70000 B; rows crossing 64 KiB; empty key; duplicates incl. at block edges) x key choice (any subset/order of <=3 columns, none) x delimiter (incl. a two-byte one) x run size (0..one-chunk-per-row spills, auto) x workers {1,2,3,4,8,16} x store {mem, badger} x entry {ingest.IngestTable, in-process wrgl commit + wrgl export, the first commit of a branch from its configured file, the cached branch-file commit (optionally with a stored delimiter and a `diff --branch-file` in between) (file rewritten in the cache entry's second) + wrgl export}; plus spill-fault cases (one spill file cut inside a length prefix between reading and merging: the ingest must fail or still be right); oracle: encoding/csv parse of the exact bytes -> sort+dedupe model, compared with block read-back and export; every table also passes the structural monitor; distinct_nontrivial = distinct (key class, size class, config, duplicates, table seed) with >=2 rows",
		Assumptions: []string{"encoding/csv is the reference for what a CSV file says", "which of several rows with the same key survives is free", "single-column tables with an empty cell are not exported through the CLI path (encoding/csv writes them as blank lines)"},
		MemLimitKB:  8 << 20,
		Gen: func(tier string, seed int64) []fw.Case {
			l := fw.NewCaseList("C01", tier, seed)
			for i, f := range c01Fixed() {
				l.Add("fixed", f, int64(10+i))
			}
			for i, s := range bigSpecs() {
				s.TableSeed = int64(7000 + i)
				for j, cfg := range []ingCfg{{Chunks: "none", Workers: 1, Store: "mem", Via: "pkg"}, {Chunks: "every", Workers: 4, Store: "mem", Via: "pkg"}, {Chunks: "two", Workers: 3, Store: "mem", Via: "cli"}} {
					if tier == "quick" && j == 2 && i%3 != 0 {
						continue
					}
					l.Add("big", c01Params{T: s, Cfg: cfg}, int64(500+i*3+j))
				}
			}
			rng := l.Rng()
			n := l.N(400, 30000)
			for i := 0; i < n; i++ {
				s := randTblSpec(rng, rng.Intn(2) == 0)
				cfg := randIngCfg(rng, s.Rows)
				switch rng.Intn(12) {
				case 0:
					cfg.Store = "badger"
				case 1, 2, 3:
					cfg.Via = "cli"
					switch rng.Intn(6) {
					case 0, 1:
						cfg.Via = "cli-bf" // the delimiter, if any, is stored with the branch by --set-file
					case 2:
						cfg.Via, cfg.Delim = "cli-cfg", ""
					}
					if cfg.Chunks == "auto" {
						cfg.Chunks = "two"
					}
					if s.NCols == 1 {
						s.NCols = 2 // see assumptions: blank-line rows of one-column CSVs
					}
				}
				l.Add("random", c01Params{T: s, Cfg: cfg}, 0)
			}
			// spill files that come back short: the ingest must be refused (or still be right)
			for i := 0; i < l.N(24, 1500); i++ {
				s := randTblSpec(rng, rng.Intn(2) == 0)
				if s.Rows < 30 {
					s.Rows = 30 + rng.Intn(700)
				}
				cfg := ingCfg{Chunks: []string{"two", "five", "every", "one"}[rng.Intn(4)], Workers: workerChoices[rng.Intn(len(workerChoices))], Store: "mem", Via: "pkg", SpillFault: 1 + rng.Intn(50)}
				if s.Rows > 400 && cfg.Chunks == "every" {
					cfg.Chunks = "five"
				}
				l.Add("spill-fault", c01Params{T: s, Cfg: cfg}, 0)
			}
			// a few larger tables
			for i := 0; i < l.N(2, 12); i++ {
				s := tblSpec{Rows: 5000 + rng.Intn(25000), NCols: 2 + rng.Intn(3), Style: int(gen.CellSimple), PK: []int{rng.Intn(2)}, TableSeed: rng.Int63(), Unique: rng.Intn(2) == 0, Dup: 0.05}
				l.Add("large", c01Params{T: s, Cfg: ingCfg{Chunks: []string{"five", "two", "none"}[rng.Intn(3)], Workers: []int{4, 8, 16}[rng.Intn(3)], Store: "mem", Via: "pkg"}}, 0)
			}
			return l.Cases
		},
		Run: c01Run,
	})
}

var _ = fmt.Sprint
