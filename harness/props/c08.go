package props

import (
	"errors"
	"fmt"
	"github.com/wrgl/wrgl/pkg/objects"
	"math/rand"
	"sort"
	"strings"
	"time"

	apiutils "github.com/wrgl/wrgl/pkg/api/utils"
	"github.com/wrgl/wrgl/pkg/ref"

	"verif/fw"
	"verif/mon"
)

// C08 — negotiation picks a closed, parent-first commit set covering every want.

type c08Params struct {
	Kind    string  `json:"kind"` // shapes | random | family
	N       int     `json:"n"`
	From    int     `json:"from"`
	To      int     `json:"to"`
	Combos  int     `json:"combos"`
	Family  string  `json:"family,omitempty"` // diamonds | ladder | wide
	K       int     `json:"k,omitempty"`
	Parents [][]int `json:"parents,omitempty"`
}

type c08Scenario struct {
	parents     [][]int
	mode        string
	refs        []int
	wants       []int
	rounds      [][]int // have batches; -1 = unknown hash
	depth       int
	shallow     map[int]bool
	nsShift     int  // which ref namespace the j-th ref gets
	noDone      bool // the negotiation ends without a round marked done (the answers are read while wants are pending)
	tablesFirst bool // TablesToSend is asked before CommitsToSend
}

func (s *c08Scenario) String() string {
	return fmt.Sprintf("parents=%v mode=%s refs=%v wants=%v haves=%v depth=%d shallow=%v", s.parents, s.mode, s.refs, s.wants, s.rounds, s.depth, keysOf(s.shallow))
}

type c08World struct {
	d      *dag
	tables [][]byte
	rs     ref.Store
	close  func()
}

func c08Build(sc *c08Scenario, rng *rand.Rand) (*c08World, error) {
	d, err := buildDag(sc.parents, sc.mode, rng)
	if err != nil {
		return nil, err
	}
	w := &c08World{d: d}
	for i := range sc.parents {
		t := make([]byte, 16)
		t[0] = byte(i)
		w.tables = append(w.tables, t)
		if !sc.shallow[i] {
			d.db.Set(append([]byte("tbl/"), t...), []byte("x"))
		}
	}
	rs, sdb, err := mon.NewMemRefStore()
	if err != nil {
		return nil, err
	}
	w.rs = rs
	w.close = func() { sdb.Close() }
	for j, r := range sc.refs {
		// refs of every namespace make a commit reachable
		name := []string{"heads/b%d", "remotes/origin/b%d", "tags/t%d", "heads/b%d"}[(j+sc.nsShift)%4]
		if err := rs.Set(fmt.Sprintf(name, j), d.sums[r]); err != nil {
			return nil, err
		}
	}
	return w, nil
}

// bfsDist returns the distance from the nearest want to every commit reachable from the wants.
func bfsDist(parents [][]int, wants []int) map[int]int {
	dist := map[int]int{}
	q := []int{}
	for _, w := range wants {
		if _, ok := dist[w]; !ok {
			dist[w] = 0
			q = append(q, w)
		}
	}
	for len(q) > 0 {
		c := q[0]
		q = q[1:]
		for _, p := range parents[c] {
			if _, ok := dist[p]; !ok {
				dist[p] = dist[c] + 1
				q = append(q, p)
			}
		}
	}
	return dist
}

func c08Check(o *fw.Obs, sc *c08Scenario, rng *rand.Rand, class string) {
	w, err := c08Build(sc, rng)
	if err != nil {
		o.Status = "inconclusive"
		o.Note = err.Error()
		return
	}
	defer w.close()
	d := w.d
	n := len(sc.parents)
	unknown := make([]byte, 16)
	unknown[0] = 0xEE
	toSums := func(idx []int) [][]byte {
		var r [][]byte
		for _, i := range idx {
			if i < 0 {
				u := append([]byte(nil), unknown...)
				u[1] = byte(-i)
				r = append(r, u)
			} else {
				r = append(r, d.sums[i])
			}
		}
		return r
	}
	// model facts
	reachableFromRefs := map[int]bool{}
	for _, r := range sc.refs {
		for a := range d.anc[r] {
			reachableFromRefs[a] = true
		}
	}
	wantOK := true
	for _, wt := range sc.wants {
		if !reachableFromRefs[wt] || sc.shallow[wt] {
			wantOK = false
		}
	}
	ancWants := map[int]bool{}
	for _, wt := range sc.wants {
		for a := range d.anc[wt] {
			ancWants[a] = true
		}
	}
	readsBefore := d.db.Reads
	finder := apiutils.NewClosedSetsFinder(d.db, w.rs, sc.depth)
	A := map[int]bool{}
	ackedAll := map[int]bool{}
	rounds := sc.rounds
	if len(rounds) == 0 {
		rounds = [][]int{nil}
	}
	for ri, batch := range rounds {
		done := ri == len(rounds)-1 && !sc.noDone
		var wants [][]byte
		if ri == 0 {
			wants = toSums(sc.wants)
		}
		var acks [][]byte
		var perr error
		if pn := fw.Catch(func() { acks, perr = finder.Process(wants, toSums(batch), done) }); pn != "" {
			o.Violate("panic/ClosedSetsFinder.Process/"+class, "%s\n%s", sc, pn)
			return
		}
		o.Ev("rounds", 1)
		if perr != nil {
			var uw *apiutils.UnrecognizedWantsError
			if errors.As(perr, &uw) {
				if wantOK {
					o.Violate("want-refused/ClosedSetsFinder/"+class, "wants are reachable from refs and complete but were refused: %v\n%s", perr, sc)
				}
				o.Ev("unrecognized_wants_cases", 1)
				// nothing may be selected
				cs, _ := finder.CommitsToSend()
				if len(cs) > 0 && !wantOK {
					// wants were recorded before the refusal? the statement: refused => nothing selected
					o.Violate("refused-but-selected/ClosedSetsFinder/"+class, "wants refused yet %d commits selected\n%s", len(cs), sc)
					return
				}
				if !wantOK && ri == 0 {
					// the session goes on with the wants that are fine (possibly none): nothing of the refused ones may
					// be served by the later round
					var good []int
					ancGood := map[int]bool{}
					for _, wt := range sc.wants {
						if reachableFromRefs[wt] && !sc.shallow[wt] {
							good = append(good, wt)
							for a := range d.anc[wt] {
								ancGood[a] = true
							}
						}
					}
					var perr2 error
					if pn := fw.Catch(func() { _, perr2 = finder.Process(toSums(good), nil, true) }); pn != "" {
						o.Violate("panic/ClosedSetsFinder.Process/"+class, "second round after a refusal: %s\n%s", sc, pn)
						return
					}
					o.Ev("rounds_after_a_refusal", 1)
					if perr2 != nil {
						o.Violate("want-refused/ClosedSetsFinder/"+class, "after a refusal, the reachable and complete wants %v alone were refused too: %v\n%s", good, perr2, sc)
						return
					}
					cs2, _ := finder.CommitsToSend()
					for _, cm := range cs2 {
						if idx, ok := d.index[string(cm.Sum)]; !ok || !ancGood[idx] {
							o.Violate("refused-want-served-later/ClosedSetsFinder/"+class, "commit %d is selected in the round after the refusal although it is no ancestor of the accepted wants %v\n%s", idx, good, sc)
							return
						}
					}
					for a := range ancGood {
						found := false
						for _, cm := range cs2 {
							if d.index[string(cm.Sum)] == a {
								found = true
							}
						}
						if !found {
							o.Violate("ancestor-not-covered/ClosedSetsFinder/"+class, "after a refusal: ancestor %d of the accepted wants %v is not selected (no haves were given)\n%s", a, good, sc)
							return
						}
					}
				}
				return
			}
			o.Violate("process-error/ClosedSetsFinder/"+class, "%v\n%s", perr, sc)
			return
		}
		if ri == 0 && !wantOK {
			o.Violate("unreachable-want-accepted/ClosedSetsFinder/"+class, "a want that is not reachable from any ref (or whose table is absent) was accepted\n%s", sc)
			return
		}
		haveSet := map[string]bool{}
		for _, h := range toSums(batch) {
			haveSet[string(h)] = true
		}
		for _, a := range acks {
			idx, ok := d.index[string(a)]
			if !ok || !haveSet[string(a)] {
				o.Violate("ack-not-a-known-have/ClosedSetsFinder/"+class, "acked %x which is not a stored commit among this round's haves\n%s", a, sc)
				return
			}
			ackedAll[idx] = true
			for x := range d.anc[idx] {
				A[x] = true
			}
		}
		if len(finder.Wants) == 0 {
			break
		}
	}
	var commits []*objects.Commit
	var tables map[string]struct{}
	if sc.tablesFirst {
		tables, err = finder.TablesToSend()
	}
	if err == nil {
		commits, err = finder.CommitsToSend()
	}
	if err != nil {
		o.Violate("commits-error/ClosedSetsFinder/"+class, "%v\n%s", err, sc)
		return
	}
	if !sc.tablesFirst {
		tables, err = finder.TablesToSend()
	}
	if err != nil {
		o.Violate("tables-error/ClosedSetsFinder/"+class, "%v\n%s", err, sc)
		return
	}
	reads := d.db.Reads - readsBefore
	o.Ev("oracle_evaluations", 1)
	o.Ev("store_reads", reads)
	r := len(sc.refs)
	bound := int64(8*(n+r)*(n+r) + 64)
	ratio := reads * 1000 / bound
	o.Max("max_reads_per_mille_of_bound", ratio)
	if reads > bound || int64(len(commits)) > bound {
		o.Violate("work-exceeds-polynomial-bound/ClosedSetsFinder/"+class, "history of %d commits and %d refs: %d store reads, %d commits listed (bound %d)\nwants=%v haves=%v", n, r, reads, len(commits), bound, sc.wants, sc.rounds)
		return
	}
	// (3) nothing unreachable, (2) parent-first at first occurrence
	S := map[int]bool{}
	var order []int
	for _, c := range commits {
		idx, ok := d.index[string(c.Sum)]
		if !ok {
			o.Violate("unknown-commit-listed/ClosedSetsFinder/"+class, "listed commit %x is not in the history\n%s", c.Sum, sc)
			return
		}
		if !S[idx] {
			for _, p := range sc.parents[idx] {
				if !A[p] && !S[p] {
					o.Violate("child-before-parent/ClosedSetsFinder/"+class, "commit %d listed before its parent %d which is neither common nor listed earlier; order so far %v\n%s", idx, p, order, sc)
					return
				}
			}
			S[idx] = true
		}
		order = append(order, idx)
		if !ancWants[idx] {
			o.Violate("unreachable-commit-listed/ClosedSetsFinder/"+class, "commit %d is not an ancestor of any want\n%s", idx, sc)
			return
		}
	}
	if len(order) != len(S) {
		o.Ev("cases_with_repeated_commits", 1)
	}
	// (1) cover
	for a := range ancWants {
		if !S[a] && !A[a] {
			o.Violate("ancestor-not-covered/ClosedSetsFinder/"+class, "commit %d is an ancestor of a want but neither listed nor an ancestor of an acknowledged commit (listed %v, acked %v)\n%s", a, keysOf(S), keysOf(ackedAll), sc)
			return
		}
	}
	// (4) tables
	dist := bfsDist(sc.parents, sc.wants)
	required := map[string]int{}
	allowed := map[string]bool{}
	for c := range S {
		within := sc.depth == 0 || dist[c] < sc.depth
		if within || A[c] {
			allowed[string(w.tables[c])] = true
		}
		if within && !A[c] {
			required[string(w.tables[c])] = c
		}
	}
	for t, c := range required {
		if _, ok := tables[t]; !ok {
			cls := class
			nested := false
			for _, wt := range sc.wants {
				if wt == c {
					nested = true
				}
			}
			if nested {
				cls += "/want-is-ancestor-of-another-want"
			}
			o.Violate("table-not-selected/ClosedSetsFinder/"+cls, "table of commit %d (distance %d from the nearest want, depth %d) not selected; selected tables of commits %v\n%s", c, dist[c], sc.depth, tablesToCommits(tables, w), sc)
			return
		}
	}
	for t := range tables {
		if !allowed[t] {
			o.Violate("table-beyond-depth-selected/ClosedSetsFinder/"+class, "table %x selected although its commit is not within depth %d of a want (or not listed)\n%s", t, sc.depth, sc)
			return
		}
	}
	o.Ev("commits_listed", int64(len(order)))
	o.Ev("tables_selected", int64(len(tables)))
	if len(ackedAll) > 0 {
		o.Ev("cases_with_acks", 1)
	}
}

func tablesToCommits(tables map[string]struct{}, w *c08World) []int {
	var r []int
	for i, t := range w.tables {
		if _, ok := tables[string(t)]; ok {
			r = append(r, i)
		}
	}
	return r
}

func pickSubset(rng *rand.Rand, n, max int) []int {
	k := rng.Intn(max + 1)
	if k > n {
		k = n
	}
	p := rng.Perm(n)[:k]
	sort.Ints(p)
	return p
}

func c08RandScenario(rng *rand.Rand, parents [][]int) *c08Scenario {
	n := len(parents)
	sc := &c08Scenario{parents: parents, mode: []string{"increasing", "equal", "decreasing", "random"}[rng.Intn(4)], shallow: map[int]bool{}}
	sc.refs = pickSubset(rng, n, 2)
	if len(sc.refs) == 0 {
		sc.refs = []int{n - 1}
	}
	// wants: mostly ancestors-or-self of refs (often a ref itself, sometimes nested wants)
	var reach []int
	seen := map[int]bool{}
	for _, r := range sc.refs {
		var stack = []int{r}
		for len(stack) > 0 {
			c := stack[len(stack)-1]
			stack = stack[:len(stack)-1]
			if seen[c] {
				continue
			}
			seen[c] = true
			reach = append(reach, c)
			stack = append(stack, parents[c]...)
		}
	}
	sort.Ints(reach)
	nw := 1 + rng.Intn(2)
	for i := 0; i < nw; i++ {
		switch rng.Intn(8) {
		case 0:
			sc.wants = append(sc.wants, rng.Intn(n)) // possibly unreachable
		case 1, 2, 3:
			sc.wants = append(sc.wants, sc.refs[rng.Intn(len(sc.refs))])
		default:
			sc.wants = append(sc.wants, reach[rng.Intn(len(reach))])
		}
	}
	if len(sc.wants) == 2 && sc.wants[0] == sc.wants[1] && rng.Intn(2) == 0 {
		sc.wants = sc.wants[:1]
	}
	if rng.Intn(6) == 0 {
		// the same want named more than once (two refs pushed to one commit, a branch and a tag on it)
		sc.wants = append(sc.wants, sc.wants[rng.Intn(len(sc.wants))])
	}
	nr := 1 + rng.Intn(3)
	for i := 0; i < nr; i++ {
		var batch []int
		for j := rng.Intn(3); j > 0; j-- {
			if rng.Intn(6) == 0 {
				batch = append(batch, -1-rng.Intn(3))
			} else {
				batch = append(batch, rng.Intn(n))
			}
		}
		sc.rounds = append(sc.rounds, batch)
	}
	sc.depth = rng.Intn(3)
	if rng.Intn(5) == 0 {
		sc.shallow[rng.Intn(n)] = true
	}
	sc.nsShift, sc.noDone, sc.tablesFirst = rng.Intn(4), rng.Intn(4) == 0, rng.Intn(2) == 0
	return sc
}

func c08ClassOf(sc *c08Scenario) string {
	d := "depth=0"
	if sc.depth > 0 {
		d = "depth>0"
	}
	return d
}

func c08Run(c *fw.Case, env *fw.Env) *fw.Obs {
	o := fw.NewObs(c)
	var p c08Params
	c.P(&p)
	rng := c.Rand()
	repeat := 8 // f.Wants is a map: iteration order varies
	runScenario := func(sc *c08Scenario, class string) {
		for i := 0; i < repeat && len(o.Viols) < 6; i++ {
			c08Check(o, sc, rng, class)
		}
		o.Ev("scenarios", 1)
	}
	switch p.Kind {
	case "shapes":
		for idx := p.From; idx < p.To && len(o.Viols) < 6; idx++ {
			sh := shapeAt(p.N, idx)
			for k := 0; k < p.Combos; k++ {
				sc := c08RandScenario(rng, sh)
				runScenario(sc, c08ClassOf(sc))
			}
			if p.N >= 2 {
				o.Key("shape/%v", sh)
			}
		}
	case "random":
		for i := 0; i < p.Combos && len(o.Viols) < 6; i++ {
			n := 6 + rng.Intn(35)
			parents := make([][]int, n)
			for j := 1; j < n; j++ {
				k := 1 + rng.Intn(2)
				if rng.Intn(8) == 0 {
					k = 0
				}
				seen := map[int]bool{}
				for len(parents[j]) < k && len(parents[j]) < j {
					a := j - 1 - rng.Intn(min(j, 4))
					if !seen[a] {
						seen[a] = true
						parents[j] = append(parents[j], a)
					}
				}
			}
			sc := c08RandScenario(rng, parents)
			runScenario(sc, c08ClassOf(sc))
			o.Key("random/%d/%d", n, rng.Int63()%100000)
		}
	case "family":
		// growing families where an exponential walk exceeds the work bound by orders of magnitude
		var parents [][]int
		switch p.Family {
		case "diamonds":
			// root, then k diamonds: a <- (b, c) <- d
			parents = [][]int{{}}
			top := 0
			for i := 0; i < p.K; i++ {
				b, cc, dd := len(parents), len(parents)+1, len(parents)+2
				parents = append(parents, []int{top}, []int{top}, []int{b, cc})
				top = dd
			}
		case "ladder":
			parents = [][]int{{}, {}}
			for i := 0; i < p.K; i++ {
				l, r := len(parents)-2, len(parents)-1
				parents = append(parents, []int{l, r}, []int{l, r})
			}
		default: // wide: many branches merged pairwise
			parents = [][]int{{}}
			var tips []int
			for i := 0; i < p.K; i++ {
				parents = append(parents, []int{0})
				tips = append(tips, len(parents)-1)
			}
			for len(tips) > 1 {
				parents = append(parents, []int{tips[0], tips[1]})
				tips = append(tips[2:], len(parents)-1)
			}
		}
		n := len(parents)
		sc := &c08Scenario{parents: parents, mode: "increasing", refs: []int{n - 1}, wants: []int{n - 1}, rounds: [][]int{{}}, depth: 0, shallow: map[int]bool{}}
		repeat = 1
		runScenario(sc, "family-"+p.Family)
		sc2 := &c08Scenario{parents: parents, mode: "equal", refs: []int{n - 1}, wants: []int{n - 1}, rounds: [][]int{{0}}, depth: 1, shallow: map[int]bool{}}
		runScenario(sc2, "family-"+p.Family)
		// an acknowledged have with a deep merge ancestry: the walk over its ancestors counts as work too
		if n > 4 {
			sc3 := &c08Scenario{parents: parents, mode: "increasing", refs: []int{n - 1}, wants: []int{n - 1}, rounds: [][]int{{n - 4, n - 2}}, depth: 0, shallow: map[int]bool{}}
			runScenario(sc3, "family-"+p.Family)
			sc4 := &c08Scenario{parents: parents, mode: "decreasing", refs: []int{n - 1, n - 3}, wants: []int{n - 1}, rounds: [][]int{{n - 3}, {n - 2}}, depth: 2, shallow: map[int]bool{}}
			runScenario(sc4, "family-"+p.Family)
		}
		o.Key("family/%s/%d", p.Family, p.K)
	case "fixed":
		// nested wants with depth>0 (#20): two branches, one behind the other
		sc := &c08Scenario{parents: p.Parents, mode: "increasing", refs: []int{len(p.Parents) - 1, 1}, wants: []int{len(p.Parents) - 1, 1}, rounds: [][]int{{}}, depth: 1, shallow: map[int]bool{}}
		repeat = 32
		runScenario(sc, c08ClassOf(sc))
		o.Key("fixed/%v", p.Parents)
	}
	o.Sample = map[string]interface{}{"kind": p.Kind, "n": p.N, "family": p.Family, "k": p.K, "scenarios": o.Events["scenarios"], "store_reads": o.Events["store_reads"], "max_reads_per_mille_of_bound": o.Events["max_reads_per_mille_of_bound"]}
	return o
}

var _ = strings.Join
var _ = time.Now

func init() {
	fw.Register(&fw.Property{
		ID:          "C08",
		Level:       "exploration",
		Rule:        "commit DAG shapes (all labelled DAGs with <=2 parents to n=5 in thorough, a seeded sample in quick; random DAGs to n=40; growing families: diamond chains, ladders, wide merges) x timestamp modes x ref sets (heads, remote-tracking, tags) x want sets (refs, ancestors, nested wants, the same want twice, unreachable or shallow wants; after a refusal a further round with the acceptable wants only) x 1..3 rounds of have batches incl. unknown hashes, sometimes without a final done, tables asked before or after commits, x depth 0..2; each scenario run 8 times (the finder iterates a map); oracle from harness-computed ancestor sets: acks are known haves, refused wants select nothing, listed commits are ancestors of wants, cover every ancestor not under an acknowledged commit, parents before children at first occurrence, tables exactly for commits within depth, and store reads <= 8(n+r)^2+64 counted by the store wrapper; distinct_nontrivial = distinct shapes / random graphs / family members",
		Assumptions: []string{"'polynomial time' is decided as a counted-reads bound on growing families, no clock", "repeated entries in the list are not judged in themselves (they count as work)", "tables of commits that lie under an acknowledged commit may or may not be selected"},
		Gen: func(tier string, seed int64) []fw.Case {
			l := fw.NewCaseList("C08", tier, seed)
			rng := l.Rng()
			l.Add("fixed", c08Params{Kind: "fixed", Parents: [][]int{{}, {0}, {1}, {2}}}, 81)
			l.Add("fixed", c08Params{Kind: "fixed", Parents: [][]int{{}, {0}, {1}, {2}, {3}}}, 82)
			for _, fam := range []string{"diamonds", "ladder", "wide"} {
				for _, k := range []int{2, 4, 6, 8, 10, 12, 14, 16} {
					l.Add("family", c08Params{Kind: "family", Family: fam, K: k}, int64(300+k))
				}
			}
			if tier == "thorough" {
				for n := 1; n <= 5; n++ {
					total := shapeCount(n)
					for from := 0; from < total; from += 8 {
						to := from + 8
						if to > total {
							to = total
						}
						l.Add("shapes", c08Params{Kind: "shapes", N: n, From: from, To: to, Combos: 100}, 0)
					}
				}
			} else {
				for i := 0; i < 40; i++ {
					n := 2 + rng.Intn(4)
					from := rng.Intn(shapeCount(n))
					l.Add("shapes", c08Params{Kind: "shapes", N: n, From: from, To: from + 1, Combos: 10}, 0)
				}
			}
			for i := 0; i < l.N(40, 3000); i++ {
				l.Add("random", c08Params{Kind: "random", Combos: 10}, 0)
			}
			return l.Cases
		},
		CaseTimeoutS: 900,
		Run:          c08Run,
	})
}
