package props

import (
	"fmt"
	"math/rand"
	"sort"
	"time"

	"github.com/wrgl/wrgl/pkg/objects"

	"verif/gen"
	"verif/mon"
)

// history is a generated commit DAG whose tables derive from one another by small edits
// (shared blocks, identical tables on different commits, multi-block tables).
type history struct {
	parents [][]int
	sums    [][]byte
	tables  [][]byte
	rows    [][][]string
	cols    []string
	pk      []string
	index   map[string]int
	anc     []map[int]bool
}

type histOpts struct {
	N         int
	BaseRows  int
	MaxPar    int
	Roots     int // additional unrelated roots
	TimeStep  int64
	TimeBase  int64
	MsgPrefix string
	Parents   [][]int     // explicit shape (overrides the random one)
	RevertTo  map[int]int // commit i carries exactly the rows of the older commit RevertTo[i]
	Rekey     bool        // some commits store their rows under the key (id, a): same blocks, different block indices
}

func cloneRows(rows [][]string) [][]string {
	r := make([][]string, len(rows))
	for i := range rows {
		r[i] = append([]string(nil), rows[i]...)
	}
	return r
}

// editRows applies a few seeded edits and returns the new row set.
func editRows(rng *rand.Rand, rows [][]string, tag string) [][]string {
	rows = cloneRows(rows)
	for k := 1 + rng.Intn(3); k > 0; k-- {
		switch rng.Intn(4) {
		case 0, 1:
			if len(rows) > 0 {
				i := rng.Intn(len(rows))
				v := fmt.Sprintf("e%s_%d", tag, k)
				if rng.Intn(4) == 0 {
					v = "" // empty cells, also in the last column of a block's last row
				}
				rows[i][1+rng.Intn(len(rows[i])-1)] = v
			}
		case 2:
			rows = append(rows, []string{fmt.Sprintf("k%s_%d", tag, k), "n", fmt.Sprint(rng.Intn(100))})
		default:
			if len(rows) > 2 {
				i := rng.Intn(len(rows))
				rows = append(rows[:i], rows[i+1:]...)
			}
		}
	}
	return rows
}

func ingestRows(db objects.Store, cols, pk []string, rows [][]string) ([]byte, error) {
	sum, err, pn := mon.Ingest(db, gen.ToCSV(&gen.Table{Cols: cols, Rows: rows}, 0), mon.IngestCfg{PK: pk, Workers: 1})
	if err != nil || pn != "" {
		return nil, fmt.Errorf("ingest: %v %s", err, pn)
	}
	return sum, nil
}

// buildHistory writes the commits and tables into db.
func buildHistory(db objects.Store, rng *rand.Rand, o histOpts) (*history, error) {
	if o.MaxPar == 0 {
		o.MaxPar = 2
	}
	if o.TimeStep == 0 {
		o.TimeStep = 10
	}
	if o.TimeBase == 0 {
		o.TimeBase = 1600000000
	}
	h := &history{cols: []string{"id", "a", "b"}, pk: []string{"id"}, index: map[string]int{}}
	base := make([][]string, o.BaseRows)
	for i := range base {
		base[i] = []string{fmt.Sprintf("r%05d", i), fmt.Sprintf("a%d", i%7), fmt.Sprintf("b%d", i%11)}
		if i%11 == 3 || i == o.BaseRows-1 || i%255 == 254 {
			base[i][2] = ""
		}
		if i%7 == 5 {
			base[i][1] = ""
		}
	}
	if o.Parents != nil {
		o.N = len(o.Parents)
	}
	for i := 0; i < o.N; i++ {
		var ps []int
		if o.Parents != nil {
			ps = append(ps, o.Parents[i]...)
		} else if i > 0 && !(o.Roots > 0 && i <= o.Roots && rng.Intn(2) == 0) {
			k := 1
			if rng.Intn(4) == 0 {
				k = 2
			}
			if k > o.MaxPar {
				k = o.MaxPar
			}
			seen := map[int]bool{}
			for len(ps) < k && len(ps) < i {
				a := i - 1 - rng.Intn(min(i, 3))
				if !seen[a] {
					seen[a] = true
					ps = append(ps, a)
				}
			}
		}
		var rows [][]string
		switch {
		case len(ps) == 0:
			rows = editRows(rng, base, fmt.Sprint(i))
		case rng.Intn(5) == 0:
			rows = cloneRows(h.rows[ps[0]]) // identical table on another commit
		default:
			rows = editRows(rng, h.rows[ps[0]], fmt.Sprint(i))
		}
		pk := h.pk
		if o.Rekey && rng.Intn(3) == 0 {
			pk = []string{"id", "a"} // same order as the key id alone: same blocks, other block indices
			if rng.Intn(2) == 0 {
				pk = []string{"a", "id"} // a key whose columns are not the leading ones in column order
			}
		}
		cols := h.cols
		switch {
		case i > 0 && rng.Intn(9) == 0:
			// nothing but a column renamed: a new table made entirely of blocks that exist already
			rows = cloneRows(h.rows[i-1])
			cols = []string{"id", "a", fmt.Sprintf("b_renamed_%d", i)}
		case i > 0 && rng.Intn(12) == 0 && len(h.rows[i-1]) > 255:
			// the trailing block dropped: again no new block
			rows = cloneRows(h.rows[i-1])
			sort.Slice(rows, func(a, b int) bool { return rows[a][0] < rows[b][0] })
			rows = rows[:255*((len(rows)-1)/255)]
		case rng.Intn(14) == 0:
			rows = nil // a header-only table
		case i > 2 && rng.Intn(8) == 0:
			// a revert: exactly the table of an older commit (not the parent's)
			rows = cloneRows(h.rows[rng.Intn(i-1)])
		}
		if j, ok := o.RevertTo[i]; ok && j < i {
			rows, cols = cloneRows(h.rows[j]), h.cols
		}
		tsum, err := ingestRows(db, cols, pk, rows)
		if err != nil {
			return nil, err
		}
		if o.Rekey && rng.Intn(4) == 0 {
			// and the same rows once more under the other key, so that blocks are shared between the two tables
			other := []string{"id", "a"}
			if len(pk) == 2 && pk[0] == "id" {
				other = h.pk
			}
			if _, err := ingestRows(db, h.cols, other, rows); err != nil {
				return nil, err
			}
		}
		var psums [][]byte
		for _, p := range ps {
			psums = append(psums, h.sums[p])
		}
		csum, _, err := mon.SaveCommitObj(db, tsum, psums, fmt.Sprintf("%sc%d", o.MsgPrefix, i), time.Unix(o.TimeBase+int64(i)*o.TimeStep, 0))
		if err != nil {
			return nil, err
		}
		h.parents = append(h.parents, ps)
		h.sums = append(h.sums, csum)
		h.tables = append(h.tables, tsum)
		h.rows = append(h.rows, rows)
		h.index[string(csum)] = i
		anc := map[int]bool{i: true}
		for _, p := range ps {
			for a := range h.anc[p] {
				anc[a] = true
			}
		}
		h.anc = append(h.anc, anc)
	}
	return h, nil
}

// tableKeys returns every object key a complete table consists of (table, index, profile, blocks, block indices).
func tableKeys(db objects.Store, tsum []byte) ([]string, error) {
	t, err := objects.GetTable(db, tsum)
	if err != nil {
		return nil, err
	}
	keys := []string{"tbl/" + string(tsum), "tblidx/" + string(tsum)}
	if db.Exist([]byte("tblsum/" + string(tsum))) {
		keys = append(keys, "tblsum/"+string(tsum))
	}
	for i := range t.Blocks {
		keys = append(keys, "blk/"+string(t.Blocks[i]), "blkidx/"+string(t.BlockIndices[i]))
	}
	return keys, nil
}

func copyKeys(src, dst objects.Store, keys []string) error {
	for _, k := range keys {
		v, err := src.Get([]byte(k))
		if err != nil {
			return fmt.Errorf("copy %q: %v", k, err)
		}
		if err := dst.Set([]byte(k), v); err != nil {
			return err
		}
	}
	return nil
}

// copyCommitClosure copies commit i with all its ancestors and their complete tables.
func (h *history) copyCommitClosure(src, dst objects.Store, i int) error {
	for a := range h.anc[i] {
		if err := copyKeys(src, dst, []string{"com/" + string(h.sums[a])}); err != nil {
			return err
		}
		ks, err := tableKeys(src, h.tables[a])
		if err != nil {
			return err
		}
		if err := copyKeys(src, dst, ks); err != nil {
			return err
		}
	}
	return nil
}

func sortedInts(m map[int]bool) []int {
	var r []int
	for k := range m {
		r = append(r, k)
	}
	sort.Ints(r)
	return r
}
