package props

import (
	"bytes"
	"encoding/json"
	"fmt"
	"math/rand"
	"strings"
	"time"

	"github.com/klauspost/compress/s2"
	"github.com/pckhoi/meow"
	"github.com/wrgl/wrgl/pkg/dprof"
	"github.com/wrgl/wrgl/pkg/encoding/packfile"
	"github.com/wrgl/wrgl/pkg/objects"

	"verif/fw"
	"verif/gen"
	"verif/mon"
)

// C06 — objects round-trip through their encodings and are stored under their hash.

type c06Params struct {
	Kind  string `json:"kind"` // commit | table | block | blockindex | profile | header
	Count int    `json:"count"`
	From  uint64 `json:"from,omitempty"`
	To    uint64 `json:"to,omitempty"`
}

var textLens = []int{0, 1, 2, 100, 65534, 65535, 65536, 70000}

func genText(rng *rand.Rand, n int) string {
	if n == 0 {
		return ""
	}
	var sb strings.Builder
	bits := []string{"a", "Z", " ", "\n", "\nparent ", "\nmessage ", "\x00", "\xff", "é", "table ", "authorName "}
	for sb.Len() < n {
		sb.WriteString(bits[rng.Intn(len(bits))])
	}
	return sb.String()[:n]
}

func meowSum(b []byte) []byte {
	s := meow.Checksum(0, b)
	return s[:]
}

func rand16(rng *rand.Rand) []byte {
	b := make([]byte, 16)
	rng.Read(b)
	return b
}

func timesEqual(a, b time.Time) bool {
	if a.IsZero() || b.IsZero() {
		return a.IsZero() && b.IsZero()
	}
	return a.Unix() == b.Unix() && a.Format("-0700") == b.Format("-0700")
}

func c06Commit(o *fw.Obs, rng *rand.Rand) {
	db := mon.NewMemStore()
	pickLen := func() int {
		if rng.Intn(3) == 0 {
			return textLens[rng.Intn(len(textLens))]
		}
		return rng.Intn(60)
	}
	c := &objects.Commit{Table: rand16(rng), AuthorName: genText(rng, pickLen()), AuthorEmail: genText(rng, pickLen()), Message: genText(rng, pickLen())}
	for i := rng.Intn(7); i > 0; i-- {
		c.Parents = append(c.Parents, rand16(rng))
	}
	if rng.Intn(10) > 0 {
		sec := rng.Int63n(9999999999)
		if rng.Intn(4) == 0 {
			sec = []int64{0, 1, 999999999, 1000000000, 9999999998}[rng.Intn(5)]
		}
		offs := []int{-12 * 3600, -9*3600 - 1800, -5 * 3600, -3600, 0, 3600, 2 * 3600, 5*3600 + 1800, 5*3600 + 2700, 12*3600 + 2700, 14 * 3600}
		c.Time = time.Unix(sec, 0).In(time.FixedZone("", offs[rng.Intn(len(offs))]))
	}
	over := len(c.AuthorName) > 65535 || len(c.AuthorEmail) > 65535 || len(c.Message) > 65535
	class := "fits"
	if over {
		class = "text>65535"
		o.Ev("oversize_values", 1)
	}
	var buf bytes.Buffer
	var werr error
	if pn := fw.Catch(func() { _, werr = c.WriteTo(&buf) }); pn != "" {
		o.Violate("panic/Commit.WriteTo/"+class, "%s", pn)
		return
	}
	o.Ev("oracle_evaluations", 1)
	o.Ev("commits", 1)
	if over {
		if werr == nil {
			// written without error: then it must at least be readable and equal
			_, rc, rerr := objects.ReadCommitFrom(bytes.NewReader(buf.Bytes()))
			if rerr != nil || rc.Message != c.Message || rc.AuthorName != c.AuthorName || rc.AuthorEmail != c.AuthorEmail {
				o.Violate("oversize-value-encoded-unreadable/Commit.WriteTo/"+class, "text field of %d/%d/%d bytes written without error; reading back: err=%v", len(c.AuthorName), len(c.AuthorEmail), len(c.Message), rerr)
			} else {
				o.Violate("oversize-value-not-rejected/Commit.WriteTo/"+class, "text field over 65535 bytes accepted")
			}
		}
		return
	}
	if werr != nil {
		o.Violate("write-error/Commit.WriteTo/"+class, "%v", werr)
		return
	}
	stored := append([]byte(nil), buf.Bytes()...)
	_, rc, rerr := objects.ReadCommitFrom(bytes.NewReader(stored))
	if rerr != nil {
		o.Violate("read-error/ReadCommitFrom/"+class, "%v (name %dB email %dB msg %dB parents %d)", rerr, len(c.AuthorName), len(c.AuthorEmail), len(c.Message), len(c.Parents))
		return
	}
	eq := bytes.Equal(rc.Table, c.Table) && rc.AuthorName == c.AuthorName && rc.AuthorEmail == c.AuthorEmail && rc.Message == c.Message && timesEqual(rc.Time, c.Time) && len(rc.Parents) == len(c.Parents)
	if eq {
		for i := range c.Parents {
			if !bytes.Equal(rc.Parents[i], c.Parents[i]) {
				eq = false
			}
		}
	}
	if !eq {
		o.Violate("roundtrip-differs/Commit/"+class, "wrote %+v\nread %+v", summarizeCommit(c), summarizeCommit(rc))
		return
	}
	var buf2 bytes.Buffer
	rc.WriteTo(&buf2)
	if !bytes.Equal(buf2.Bytes(), stored) {
		o.Violate("reencode-differs/Commit/"+class, "re-encoding the decoded commit gives different bytes")
		return
	}
	sum, err := objects.SaveCommit(db, stored)
	if err != nil || !bytes.Equal(sum, meowSum(stored)) {
		o.Violate("key-not-hash/SaveCommit/"+class, "sum %x, hash of bytes %x, err %v", sum, meowSum(stored), err)
		return
	}
	objects.SaveCommit(db, stored)
	if db.Len() != 1 {
		o.Violate("stored-twice/SaveCommit/"+class, "%d keys after saving identical content twice", db.Len())
	}
	raw, err := db.Get(append([]byte("com/"), sum...))
	if err != nil || !bytes.Equal(raw, stored) {
		o.Violate("stored-bytes-differ/SaveCommit/"+class, "err %v", err)
	}
	gc, err := objects.GetCommit(db, sum)
	if err != nil || gc.Message != c.Message || !bytes.Equal(gc.Sum, sum) {
		o.Violate("get-differs/GetCommit/"+class, "err %v", err)
	}
	if len(c.Message) >= 65534 || len(c.AuthorName) >= 65534 {
		o.Ev("boundary_lengths", 1)
	}
	o.Key("commit/p%d/n%d/m%d/z%v", len(c.Parents), len(c.AuthorName), len(c.Message), c.Time.IsZero())
}

func summarizeCommit(c *objects.Commit) string {
	return fmt.Sprintf("{table %x name %dB email %dB msg %dB time %v parents %d}", c.Table, len(c.AuthorName), len(c.AuthorEmail), len(c.Message), c.Time, len(c.Parents))
}

func c06Table(o *fw.Obs, rng *rand.Rand) {
	db := mon.NewMemStore()
	ncols := rng.Intn(41)
	cols := make([]string, ncols)
	for i := range cols {
		cols[i] = fmt.Sprintf("col%d%s", i, gen.Cell(rng, gen.CellHostile))
	}
	if ncols > 0 && rng.Intn(6) == 0 {
		cols[rng.Intn(ncols)] = genText(rng, []int{65534, 65535}[rng.Intn(2)])
	}
	var pk []uint32
	for i := 0; i < ncols && len(pk) < 4; i++ {
		if rng.Intn(5) == 0 {
			pk = append(pk, uint32(i))
		}
	}
	rng.Shuffle(len(pk), func(i, j int) { pk[i], pk[j] = pk[j], pk[i] })
	rc := []uint32{0, 1, 254, 255, 256, 509, 510, 511, 765, 2000}[rng.Intn(10)]
	t := objects.NewTable(cols, pk)
	t.RowsCount = rc
	nb := int((rc + 254) / 255)
	for i := 0; i < nb; i++ {
		t.Blocks = append(t.Blocks, rand16(rng))
		t.BlockIndices = append(t.BlockIndices, rand16(rng))
	}
	var buf bytes.Buffer
	var werr error
	if pn := fw.Catch(func() { _, werr = t.WriteTo(&buf) }); pn != "" {
		o.Violate("panic/Table.WriteTo", "%s", pn)
		return
	}
	o.Ev("oracle_evaluations", 1)
	o.Ev("tables", 1)
	if werr != nil {
		o.Violate("write-error/Table.WriteTo", "%v", werr)
		return
	}
	stored := append([]byte(nil), buf.Bytes()...)
	_, rt, rerr := objects.ReadTableFrom(bytes.NewReader(stored))
	if rerr != nil {
		o.Violate("read-error/ReadTableFrom", "%v (cols %d pk %v rows %d)", rerr, ncols, pk, rc)
		return
	}
	eq := strEq(rt.Columns, cols) && len(rt.PK) == len(pk) && rt.RowsCount == rc && len(rt.Blocks) == nb && len(rt.BlockIndices) == nb
	if eq {
		for i := range pk {
			if rt.PK[i] != pk[i] {
				eq = false
			}
		}
		for i := 0; i < nb; i++ {
			if !bytes.Equal(rt.Blocks[i], t.Blocks[i]) || !bytes.Equal(rt.BlockIndices[i], t.BlockIndices[i]) {
				eq = false
			}
		}
	}
	if !eq {
		o.Violate("roundtrip-differs/Table", "cols %d pk %v rows %d blocks %d -> cols %d pk %v rows %d blocks %d", ncols, pk, rc, nb, len(rt.Columns), rt.PK, rt.RowsCount, len(rt.Blocks))
		return
	}
	var buf2 bytes.Buffer
	rt.WriteTo(&buf2)
	if !bytes.Equal(buf2.Bytes(), stored) {
		o.Violate("reencode-differs/Table", "re-encoding the decoded table gives different bytes")
	}
	sum, err := objects.SaveTable(db, stored)
	if err != nil || !bytes.Equal(sum, meowSum(stored)) {
		o.Violate("key-not-hash/SaveTable", "sum %x hash %x err %v", sum, meowSum(stored), err)
		return
	}
	objects.SaveTable(db, stored)
	if db.Len() != 1 {
		o.Violate("stored-twice/SaveTable", "%d keys", db.Len())
	}
	gt, err := objects.GetTable(db, sum)
	if err != nil || !strEq(gt.Columns, cols) {
		o.Violate("get-differs/GetTable", "err %v", err)
	}
	o.Key("table/c%d/pk%d/r%d", ncols, len(pk), rc)
}

func c06Block(o *fw.Obs, rng *rand.Rand) {
	db := mon.NewMemStore()
	nrows := 1 + rng.Intn(255)
	if rng.Intn(3) == 0 {
		nrows = []int{1, 2, 254, 255}[rng.Intn(4)]
	}
	ncols := 1 + rng.Intn(5)
	blk := make([][]string, nrows)
	big := rng.Intn(4) == 0
	for i := range blk {
		blk[i] = make([]string, ncols)
		for j := range blk[i] {
			blk[i][j] = gen.Cell(rng, gen.CellHostile)
		}
	}
	class := "rows<64KiB"
	if big {
		class = "row>64KiB"
		r := rng.Intn(nrows)
		for j := 0; j < ncols; j++ {
			blk[r][j] = genText(rng, []int{30000, 65535, 40000, 65534}[rng.Intn(4)])
		}
		o.Ev("big_rows", 1)
	}
	pk := []uint32{}
	if rng.Intn(3) > 0 {
		pk = append(pk, uint32(rng.Intn(ncols)))
	}
	enc := objects.NewStrListEncoder(true)
	var buf bytes.Buffer
	var werr error
	if pn := fw.Catch(func() { _, werr = objects.WriteBlockTo(enc, &buf, blk) }); pn != "" {
		o.Violate("panic/WriteBlockTo/"+class, "%s", pn)
		return
	}
	o.Ev("oracle_evaluations", 1)
	o.Ev("blocks", 1)
	if werr != nil {
		o.Violate("write-error/WriteBlockTo/"+class, "%v", werr)
		return
	}
	stored := append([]byte(nil), buf.Bytes()...)
	_, rb, rerr := objects.ReadBlockFrom(bytes.NewReader(stored))
	if rerr != nil {
		o.Violate("read-error/ReadBlockFrom/"+class, "%v", rerr)
		return
	}
	if len(rb) != len(blk) {
		o.Violate("roundtrip-differs/Block/"+class, "%d rows -> %d rows", len(blk), len(rb))
		return
	}
	for i := range blk {
		if !strEq(rb[i], blk[i]) {
			o.Violate("roundtrip-differs/Block/"+class, "row %d differs after round trip (row bytes %d)", i, len(mon.EncodeStrList(blk[i])))
			return
		}
	}
	// what the writer writes, the validator of the receive path accepts (rows and row count it reports included)
	if verr := objects.ValidateBlockBytes(stored); verr != nil {
		last := blk[len(blk)-1]
		o.Violate("valid-block-rejected/ValidateBlockBytes/"+class, "a block written by WriteBlockTo (%d rows, last cell %q) is refused by ValidateBlockBytes: %v", len(blk), last[len(last)-1], verr)
		return
	}
	// independent encoding must agree byte for byte
	ind := make([]byte, 4)
	ind[0], ind[1], ind[2], ind[3] = byte(len(blk)>>24), byte(len(blk)>>16), byte(len(blk)>>8), byte(len(blk))
	for _, r := range blk {
		ind = append(ind, mon.EncodeStrList(r)...)
	}
	if !bytes.Equal(ind, stored) {
		o.Violate("encoding-differs-from-format/WriteBlockTo/"+class, "block bytes differ from the documented format (len %d vs %d)", len(stored), len(ind))
		return
	}
	sum, _, err := objects.SaveBlock(db, nil, stored)
	if err != nil || !bytes.Equal(sum, meowSum(stored)) {
		o.Violate("key-not-hash/SaveBlock/"+class, "sum %x hash of uncompressed %x err %v", sum, meowSum(stored), err)
		return
	}
	objects.SaveBlock(db, nil, stored)
	if db.Len() != 1 {
		o.Violate("stored-twice/SaveBlock/"+class, "%d keys", db.Len())
	}
	raw, _ := db.Get(append([]byte("blk/"), sum...))
	dec, err := s2.Decode(nil, raw)
	if err != nil || !bytes.Equal(dec, stored) {
		o.Violate("stored-bytes-differ/SaveBlock/"+class, "stored bytes do not decompress to the block: %v", err)
	}
	gb, _, err := objects.GetBlock(db, nil, sum)
	if err != nil || len(gb) != len(blk) {
		o.Violate("get-differs/GetBlock/"+class, "err %v", err)
	}
	// block index
	idx, err := objects.IndexBlock(enc, meow.New(0), blk, pk)
	if err != nil {
		o.Violate("index-error/IndexBlock/"+class, "%v", err)
		return
	}
	var ib bytes.Buffer
	idx.WriteTo(&ib)
	istored := append([]byte(nil), ib.Bytes()...)
	_, ridx, rerr := objects.ReadBlockIndex(bytes.NewReader(istored))
	o.Ev("oracle_evaluations", 1)
	o.Ev("block_indices", 1)
	if rerr != nil {
		o.Violate("read-error/ReadBlockIndex/"+class, "%v", rerr)
		return
	}
	var ib2 bytes.Buffer
	ridx.WriteTo(&ib2)
	if !bytes.Equal(ib2.Bytes(), istored) {
		o.Violate("reencode-differs/BlockIndex/"+class, "re-encoding the decoded block index gives different bytes")
	}
	for i, r := range blk {
		want := meowSum(mon.EncodeStrList(r))
		if !bytes.Equal(ridx.Rows[i][16:], want) {
			o.Violate("row-hash-wrong/IndexBlock/"+class, "row %d (%d bytes encoded): index row hash %x, hash of the row's encoding %x", i, len(mon.EncodeStrList(r)), ridx.Rows[i][16:], want)
			break
		}
	}
	// the index the ingest path builds from the encoded block (key cells picked by a StrListEditor) is the same index
	if len(pk) > 0 {
		var fb *objects.BlockIndex
		var ferr error
		if pn := fw.Catch(func() {
			fb, ferr = objects.IndexBlockFromBytes(objects.NewStrListDecoder(false), meow.New(0), objects.NewStrListEditor(pk), stored, pk)
		}); pn != "" {
			o.Violate("panic/IndexBlockFromBytes/"+class, "%s", pn)
			return
		}
		var fbuf bytes.Buffer
		if ferr == nil {
			fb.WriteTo(&fbuf)
		}
		o.Ev("oracle_evaluations", 1)
		if ferr != nil || !bytes.Equal(fbuf.Bytes(), istored) {
			o.Violate("index-from-bytes-differs/IndexBlockFromBytes/"+class, "the block index built from the encoded block differs from the one built from the rows (pk %v, err %v)", pk, ferr)
		}
	}
	// saving over damaged bytes repairs them: after a successful save the block reads back
	bkey := append([]byte("blk/"), sum...)
	db.Set(bkey, []byte{1, 2, 3})
	if _, _, err := objects.SaveBlock(db, nil, stored); err == nil {
		if gb2, _, err := objects.GetBlock(db, nil, sum); err != nil || len(gb2) != len(blk) {
			o.Violate("saved-block-unreadable/SaveBlock/"+class, "SaveBlock over damaged bytes reported success but GetBlock gives %v", err)
		}
	}
	isum, _, err := objects.SaveBlockIndex(db, nil, istored)
	if err != nil || !bytes.Equal(isum, meowSum(istored)) {
		o.Violate("key-not-hash/SaveBlockIndex/"+class, "sum %x hash %x err %v", isum, meowSum(istored), err)
	}
	gi, _, err := objects.GetBlockIndex(db, nil, isum)
	if err != nil || gi.Len() != len(blk) {
		o.Violate("get-differs/GetBlockIndex/"+class, "err %v", err)
	}
	o.Key("block/r%d/c%d/%s/pk%d", nrows, ncols, class, len(pk))
}

func normProfile(p *objects.TableProfile) string {
	b, _ := json.Marshal(p)
	return string(b)
}

func c06Profile(o *fw.Obs, rng *rand.Rand) {
	db := mon.NewMemStore()
	ncols := 1 + rng.Intn(6)
	cols := gen.Cols(ncols)
	pr := dprof.NewProfiler(cols)
	nrows := rng.Intn(400)
	for i := 0; i < nrows; i++ {
		row := make([]string, ncols)
		for j := range row {
			switch (j + int(rng.Int63())) % 4 {
			case 0:
				row[j] = fmt.Sprintf("%d", rng.Intn(1000)-500)
			case 1:
				row[j] = fmt.Sprintf("%.3f", rng.Float64()*1e6)
			case 2:
				row[j] = ""
			default:
				row[j] = gen.Cell(rng, gen.CellHostile)
			}
		}
		pr.Process(row)
	}
	tp := pr.Summarize()
	var buf bytes.Buffer
	var werr error
	if pn := fw.Catch(func() { _, werr = tp.WriteTo(&buf) }); pn != "" {
		o.Violate("panic/TableProfile.WriteTo", "%s", pn)
		return
	}
	o.Ev("oracle_evaluations", 1)
	o.Ev("profiles", 1)
	if werr != nil {
		o.Violate("write-error/TableProfile.WriteTo", "%v", werr)
		return
	}
	stored := append([]byte(nil), buf.Bytes()...)
	rp := &objects.TableProfile{}
	if _, err := rp.ReadFrom(bytes.NewReader(stored)); err != nil {
		o.Violate("read-error/TableProfile.ReadFrom", "%v", err)
		return
	}
	if normProfile(rp) != normProfile(tp) {
		o.Violate("roundtrip-differs/TableProfile", "wrote %.300s\nread  %.300s", normProfile(tp), normProfile(rp))
		return
	}
	var buf2 bytes.Buffer
	rp.WriteTo(&buf2)
	if !bytes.Equal(buf2.Bytes(), stored) {
		o.Violate("reencode-differs/TableProfile", "re-encoding the decoded profile gives different bytes")
	}
	tsum := rand16(rng)
	if err := objects.SaveTableProfile(db, tsum, stored); err != nil {
		o.Violate("save-error/SaveTableProfile", "%v", err)
		return
	}
	gp, err := objects.GetTableProfile(db, tsum)
	if err != nil || normProfile(gp) != normProfile(tp) {
		o.Violate("get-differs/GetTableProfile", "err %v", err)
	}
	raw, _ := db.Get(append([]byte("tblsum/"), tsum...))
	if !bytes.Equal(raw, stored) {
		o.Violate("stored-bytes-differ/SaveTableProfile", "profile not stored under its table's sum")
	}
	// a profile is stored under its table's sum, not under its own hash: a refreshed profile (wrgl profile --refresh)
	// replaces the earlier one, and what reads back is what was written last
	tp2 := *tp
	tp2.RowsCount = tp.RowsCount + 7
	var buf3 bytes.Buffer
	tp2.WriteTo(&buf3)
	if err := objects.SaveTableProfile(db, tsum, buf3.Bytes()); err != nil {
		o.Violate("save-error/SaveTableProfile", "second save: %v", err)
		return
	}
	o.Ev("oracle_evaluations", 1)
	if gp2, err := objects.GetTableProfile(db, tsum); err != nil || gp2.RowsCount != tp2.RowsCount {
		o.Violate("get-differs/GetTableProfile/refreshed", "a second profile saved for the same table does not read back (err %v)", err)
	}
	// likewise the table index
	tix := [][]string{{"a"}, {"b"}}
	for round, first := range []string{"k1", "k2"} {
		tix[0][0] = first
		var tb bytes.Buffer
		enc := objects.NewStrListEncoder(true)
		if _, err := objects.WriteBlockTo(enc, &tb, tix); err != nil {
			break
		}
		if err := objects.SaveTableIndex(db, tsum, tb.Bytes()); err != nil {
			o.Violate("save-error/SaveTableIndex", "%v", err)
			break
		}
		if got, err := objects.GetTableIndex(db, tsum); err != nil || len(got) != 2 || got[0][0] != first {
			o.Violate("get-differs/GetTableIndex", "table index saved in round %d does not read back: %v %v", round, got, err)
			break
		}
	}
	o.Key("profile/c%d/r%d", ncols, nrows)
}

func c06Header(o *fw.Obs, p *c06Params, rng *rand.Rand) {
	check := func(u uint64) bool {
		for typ := 1; typ <= 3; typ++ {
			var b []byte
			if pn := fw.Catch(func() { b = packfile.VerifEncodeObjTypeAndLen(typ, u) }); pn != "" {
				o.Violate("panic/encodeObjTypeAndLen", "type %d len %d: %s", typ, u, pn)
				return false
			}
			rt, ru, err := packfile.VerifDecodeObjTypeAndLen(bytes.NewReader(append(b, 0xAA, 0xBB)))
			o.Ev("oracle_evaluations", 1)
			if err != nil || rt != typ || ru != u {
				cls := "len<2^32"
				if u >= 1<<32 {
					cls = "len>=2^32"
				}
				o.Violate("header-roundtrip/encodeObjTypeAndLen/"+cls, "type %d length %d encoded as %x decodes to type %d length %d err %v", typ, u, b, rt, ru, err)
				return false
			}
		}
		return true
	}
	n := 0
	if p.To > p.From {
		for u := p.From; u < p.To; u++ {
			if !check(u) {
				return
			}
			n++
		}
		o.Ev("header_lengths_exhaustive", int64(n))
		o.Key("header/[%d,%d)", p.From, p.To)
		return
	}
	for k := uint(1); k <= 63; k++ {
		for _, u := range []uint64{(1 << k) - 1, 1 << k, (1 << k) + 1} {
			if !check(u) {
				return
			}
			n++
		}
	}
	for i := 0; i < p.Count; i++ {
		u := uint64(rng.Uint32())
		if i%10 == 0 {
			u = rng.Uint64() >> uint(rng.Intn(32))
		}
		if u == 0 {
			u = 1
		}
		if !check(u) {
			return
		}
		n++
	}
	o.Ev("header_lengths_sampled", int64(n))
	o.Key("header/sampled/%d", p.Count)
}

func c06Run(c *fw.Case, env *fw.Env) *fw.Obs {
	o := fw.NewObs(c)
	var p c06Params
	c.P(&p)
	rng := c.Rand()
	if p.Kind == "header" {
		c06Header(o, &p, rng)
		o.Sample = map[string]interface{}{"kind": "header", "from": p.From, "to": p.To, "sampled": p.Count}
		return o
	}
	for i := 0; i < p.Count && len(o.Viols) < 5; i++ {
		switch p.Kind {
		case "commit":
			c06Commit(o, rng)
		case "table":
			c06Table(o, rng)
		case "block":
			c06Block(o, rng)
		case "profile":
			c06Profile(o, rng)
		}
	}
	o.Sample = map[string]interface{}{"kind": p.Kind, "objects": p.Count, "evaluations": o.Events["oracle_evaluations"]}
	return o
}

func init() {
	fw.Register(&fw.Property{
		ID: "C06",
		// the workers run in a zone with daylight saving time whose standard offset (+01:00) is among the generated ones: what
		// is decoded must not depend on where it is decoded
		Env:         []string{"TZ=CET"},
		Level:       "exploration",
		Rule:        "generated commits (text fields of 0/1/65534/65535/65536/70000 B with embedded field labels and non-UTF8, 0..6 parents, instants 1970..2286 x zones -12:00..+14:00 incl. :30/:45, zero time), blocks (also passed to ValidateBlockBytes, which must accept what WriteBlockTo writes), tables (0..40 columns, key subsets, row counts at block edges), blocks (1..255 rows incl. rows over 64 KiB) with their block indices, profiles produced by the profiler, and the packfile length header (every length in a range exhaustively, all 2^k-1/2^k/2^k+1 for k<=63, sampled 32/64-bit values x 3 types): decode(encode(v)) = v, encode(decode(bytes)) = bytes, store key = prefix + meow(canonical bytes), identical content stored once, oversize text rejected with an error; distinct_nontrivial = distinct object shapes",
		Assumptions: []string{"instants outside [1970, 2286) are excluded (the 10-digit seconds field cannot hold them)", "object length 0 does not occur", "profiles are those the profiler can produce"},
		Gen: func(tier string, seed int64) []fw.Case {
			l := fw.NewCaseList("C06", tier, seed)
			per := l.N(40, 2000)
			for _, k := range []string{"commit", "table", "block", "profile"} {
				for i := 0; i < 16; i++ {
					l.Add(k, c06Params{Kind: k, Count: per}, 0)
				}
			}
			top := uint64(1 << 16)
			if tier == "thorough" {
				top = 1 << 20
			}
			step := top / 16
			for from := uint64(1); from < top; from += step {
				to := from + step
				if to > top+1 {
					to = top + 1
				}
				l.Add("header", c06Params{Kind: "header", From: from, To: to}, 0)
			}
			for i := 0; i < 4; i++ {
				l.Add("header", c06Params{Kind: "header", Count: l.N(20000, 300000)}, 0)
			}
			return l.Cases
		},
		Run: c06Run,
	})
}
