package props

import (
	"bytes"
	"encoding/csv"
	"fmt"
	"math/rand"
	"os"
	"path/filepath"
	"regexp"
	"sort"
	"strconv"
	"strings"
	"time"

	"github.com/go-logr/logr"
	"github.com/wrgl/wrgl/pkg/diff"
	"github.com/wrgl/wrgl/pkg/objects"

	"verif/fw"
	"verif/gen"
	"verif/mon"
)

// C04 — diff reports exactly the rows added, removed and modified between two tables.

type c04Params struct {
	CLI       bool    `json:"cli,omitempty"` // through `wrgl diff A B --no-gui`: the DIFF_*.csv report is parsed and judged
	Scenario  string  `json:"scenario"`
	N1        int     `json:"n1"`
	N2        int     `json:"n2"`
	NCols     int     `json:"ncols"`
	PK        []int   `json:"pk"`
	ColsDiff  bool    `json:"cols_differ"` // table 2 has an extra non-key column
	TwoStores bool    `json:"two_stores"`
	ModRate   float64 `json:"mod_rate"`
}

type diffEvent struct {
	PK        string
	Sum       string
	OldSum    string
	Offset    uint32
	OldOffset uint32
}

// runDiff drains diff.DiffTables. A panic inside wrgl's goroutine kills the process (observed by the supervisor).
func runDiff(db1, db2 objects.Store, sum1, sum2 []byte, opts ...diff.DiffOption) (events []diffEvent, err error, stuck bool) {
	t1, err := objects.GetTable(db1, sum1)
	if err != nil {
		return nil, fmt.Errorf("GetTable 1: %v", err), false
	}
	t2, err := objects.GetTable(db2, sum2)
	if err != nil {
		return nil, fmt.Errorf("GetTable 2: %v", err), false
	}
	idx1, err := objects.GetTableIndex(db1, sum1)
	if err != nil {
		return nil, fmt.Errorf("GetTableIndex 1: %v", err), false
	}
	idx2, err := objects.GetTableIndex(db2, sum2)
	if err != nil {
		return nil, fmt.Errorf("GetTableIndex 2: %v", err), false
	}
	errChan := make(chan error, 10)
	ch, _ := diff.DiffTables(db1, db2, t1, t2, idx1, idx2, errChan, logr.Discard(), opts...)
	timeout := time.After(120 * time.Second)
loop:
	for {
		select {
		case d, ok := <-ch:
			if !ok {
				break loop
			}
			events = append(events, diffEvent{PK: string(d.PK), Sum: string(d.Sum), OldSum: string(d.OldSum), Offset: d.Offset, OldOffset: d.OldOffset})
		case <-timeout:
			return events, nil, true
		}
	}
	close(errChan)
	if e, ok := <-errChan; ok {
		err = e
	}
	return events, err, false
}

type tblView struct {
	rows    [][]string
	keyHash []string
	rowHash []string
	byKey   map[string]int
}

func viewOf(tc *mon.TableContent) *tblView {
	v := &tblView{rows: tc.Rows, byKey: map[string]int{}}
	pk := tc.Table.PK
	for i, r := range tc.Rows {
		rh := string(meowSum(mon.EncodeStrList(r)))
		kh := rh
		if len(pk) > 0 {
			kh = string(meowSum(mon.EncodeStrList(mon.KeyOf(r, pk))))
		}
		v.keyHash = append(v.keyHash, kh)
		v.rowHash = append(v.rowHash, rh)
		v.byKey[kh] = i
	}
	return v
}

// checkDiff compares the observed events for diff(T1,T2) with the model. Returns "" or (clause, detail).
func checkDiff(events []diffEvent, v1, v2 *tblView, colsEqual bool) (string, string) {
	seen := map[string]bool{}
	nAdded, nRemoved, nModified := 0, 0, 0
	for _, e := range events {
		if seen[e.PK] {
			return "key-reported-twice", fmt.Sprintf("key hash %x reported twice", e.PK)
		}
		seen[e.PK] = true
		i1, in1 := v1.byKey[e.PK]
		i2, in2 := v2.byKey[e.PK]
		switch {
		case e.Sum != "" && e.OldSum == "":
			if !in1 || in2 {
				return "spurious-added", fmt.Sprintf("added event for key %x (in table1: %v, in table2: %v)", e.PK, in1, in2)
			}
			if e.Sum != v1.rowHash[i1] {
				return "wrong-row-hash", fmt.Sprintf("added event for key %x carries a row hash that is not the row's", e.PK)
			}
			if int(e.Offset) != i1 {
				return "wrong-offset", fmt.Sprintf("added event for key %x has offset %d, row is at %d", e.PK, e.Offset, i1)
			}
			nAdded++
		case e.Sum == "" && e.OldSum != "":
			if in1 || !in2 {
				return "spurious-removed", fmt.Sprintf("removed event for key %x (in table1: %v, in table2: %v)", e.PK, in1, in2)
			}
			if e.OldSum != v2.rowHash[i2] {
				return "wrong-row-hash", fmt.Sprintf("removed event for key %x carries a row hash that is not the row's", e.PK)
			}
			if int(e.OldOffset) != i2 {
				return "wrong-offset", fmt.Sprintf("removed event for key %x has old offset %d, row is at %d", e.PK, e.OldOffset, i2)
			}
			nRemoved++
		case e.Sum != "" && e.OldSum != "":
			if !in1 || !in2 {
				return "spurious-modified", fmt.Sprintf("modified event for key %x (in table1: %v, in table2: %v)", e.PK, in1, in2)
			}
			if e.Sum != v1.rowHash[i1] || e.OldSum != v2.rowHash[i2] {
				return "wrong-row-hash", fmt.Sprintf("modified event for key %x carries hashes that are not the rows'", e.PK)
			}
			if int(e.Offset) != i1 || int(e.OldOffset) != i2 {
				return "wrong-offset", fmt.Sprintf("modified event for key %x has offsets (%d,%d), rows are at (%d,%d)", e.PK, e.Offset, e.OldOffset, i1, i2)
			}
			if colsEqual && e.Sum == e.OldSum {
				return "event-for-identical-row", fmt.Sprintf("event for key %x whose rows are identical", e.PK)
			}
			nModified++
		default:
			return "empty-event", fmt.Sprintf("event for key %x with neither row", e.PK)
		}
	}
	for kh, i1 := range v1.byKey {
		i2, in2 := v2.byKey[kh]
		if !in2 && !seen[kh] {
			return "missing-added", fmt.Sprintf("key %q (row %d of table 1) is only in table 1 but no event was emitted", trunc(v1.rows[i1]), i1)
		}
		if in2 && colsEqual && v1.rowHash[i1] != v2.rowHash[i2] && !seen[kh] {
			return "missing-modified", fmt.Sprintf("key of row %d/%d differs in content but no event was emitted (%q vs %q)", i1, i2, trunc(v1.rows[i1]), trunc(v2.rows[i2]))
		}
	}
	for kh, i2 := range v2.byKey {
		if _, in1 := v1.byKey[kh]; !in1 && !seen[kh] {
			return "missing-removed", fmt.Sprintf("key %q (row %d of table 2) is only in table 2 but no event was emitted", trunc(v2.rows[i2]), i2)
		}
	}
	return "", fmt.Sprintf("%d/%d/%d", nAdded, nRemoved, nModified)
}

func max64(a, b int64) int64 {
	if a > b {
		return a
	}
	return b
}

func trunc(sl []string) []string {
	r := make([]string, len(sl))
	for i, s := range sl {
		if len(s) > 24 {
			s = s[:24] + "…"
		}
		r[i] = s
	}
	return r
}

// genPair builds two row sets over one key universe according to the scenario.
func genPair(rng *rand.Rand, p *c04Params) (cols []string, rows1, rows2 [][]string) {
	cols = gen.Cols(p.NCols)
	total := p.N1 + p.N2
	// universe of unique keys, sorted, so that scenarios can talk about key ranges
	u := gen.GenTable(rng, gen.Opts{Rows: total + 4, NCols: p.NCols, Style: gen.CellTiny, PK: p.PK, UniqueKey: true})
	if rng.Intn(2) == 0 {
		u = gen.GenTable(rng, gen.Opts{Rows: total + 4, NCols: p.NCols, Style: gen.CellSimple, PK: p.PK, UniqueKey: true})
	}
	pk := p.PK
	if len(pk) == 0 {
		pk = make([]int, p.NCols)
		for i := range pk {
			pk[i] = i
		}
	}
	rows := u.Rows
	if p.NCols == 1 {
		// a one-column CSV row with an empty cell is a blank line, which CSV readers skip
		for _, r := range rows {
			if r[0] == "" {
				r[0] = "_empty"
			}
		}
	}
	sort.Slice(rows, func(i, j int) bool {
		for _, c := range pk {
			if rows[i][c] != rows[j][c] {
				return rows[i][c] < rows[j][c]
			}
		}
		return false
	})
	pick := func(idx []int) [][]string {
		var r [][]string
		for _, i := range idx {
			if i >= 0 && i < len(rows) {
				r = append(r, append([]string(nil), rows[i]...))
			}
		}
		return r
	}
	rangeIdx := func(a, b int) []int {
		var r []int
		for i := a; i < b; i++ {
			r = append(r, i)
		}
		return r
	}
	switch p.Scenario {
	case "disjoint":
		rows1, rows2 = pick(rangeIdx(0, p.N1)), pick(rangeIdx(p.N1, p.N1+p.N2))
	case "disjoint-rev":
		rows2, rows1 = pick(rangeIdx(0, p.N2)), pick(rangeIdx(p.N2, p.N1+p.N2))
	case "interleaved":
		var a, b []int
		for i := 0; i < total; i++ {
			if i%2 == 0 && len(a) < p.N1 {
				a = append(a, i)
			} else if len(b) < p.N2 {
				b = append(b, i)
			} else {
				a = append(a, i)
			}
		}
		rows1, rows2 = pick(a), pick(b)
	case "nested":
		n := p.N1
		if p.N2 > n {
			n = p.N2
		}
		big := rangeIdx(0, n)
		small := n/3 + 1
		if p.N1 >= p.N2 {
			rows1, rows2 = pick(big), pick(rangeIdx(n/3, n/3+min(p.N2, small*2)))
		} else {
			rows2, rows1 = pick(big), pick(rangeIdx(n/3, n/3+min(p.N1, small*2)))
		}
	case "identical":
		rows1 = pick(rangeIdx(0, p.N1))
		rows2 = pick(rangeIdx(0, p.N1))
	case "shifted":
		// same keys but table 2 additionally has `shift` smaller keys: every block boundary moves
		shift := []int{1, 254, 255, 256}[rng.Intn(4)]
		if shift > p.N2 {
			shift = 1
		}
		rows1 = pick(rangeIdx(shift, shift+p.N1))
		rows2 = pick(rangeIdx(0, shift+p.N1))
	default: // random overlap
		var a, b []int
		for i := 0; i < total; i++ {
			switch rng.Intn(3) {
			case 0:
				a = append(a, i)
			case 1:
				b = append(b, i)
			default:
				a = append(a, i)
				b = append(b, i)
			}
		}
		if len(a) > p.N1 {
			a = a[:p.N1]
		}
		if len(b) > p.N2 {
			b = b[len(b)-p.N2:]
		}
		rows1, rows2 = pick(a), pick(b)
	}
	// modify non-key cells of some shared rows in table 2 (keyed tables only)
	if len(p.PK) > 0 && len(p.PK) < p.NCols {
		isKey := map[int]bool{}
		for _, k := range p.PK {
			isKey[k] = true
		}
		var non []int
		for c := 0; c < p.NCols; c++ {
			if !isKey[c] {
				non = append(non, c)
			}
		}
		for _, r := range rows2 {
			if rng.Float64() < p.ModRate {
				c := non[rng.Intn(len(non))]
				r[c] += "*"
			}
		}
	}
	return
}

func c04Run(c *fw.Case, env *fw.Env) *fw.Obs {
	o := fw.NewObs(c)
	var p c04Params
	c.P(&p)
	rng := c.Rand()
	cols, rows1, rows2 := genPair(rng, &p)
	cols2 := cols
	if p.ColsDiff {
		cols2 = append(append([]string(nil), cols...), "extra")
		for i := range rows2 {
			rows2[i] = append(rows2[i], fmt.Sprint(i%3))
		}
	}
	class := p.Scenario + "/" + pkClass(p.PK) + "/" + sizeClass(len(rows1)) + "-" + sizeClass(len(rows2))
	if p.ColsDiff {
		class += "/cols-differ"
	}
	if p.CLI {
		return c04CLI(c, env, o, &p, cols, rows1, rows2, class)
	}
	db1 := mon.NewMemStore()
	var db2 objects.Store = db1
	if p.TwoStores {
		db2 = mon.NewMemStore()
	}
	pkNames := gen.ColNames(cols, p.PK)
	ing := func(db objects.Store, cs []string, rows [][]string) ([]byte, *mon.TableContent, bool) {
		sum, err, pn := mon.Ingest(db, gen.ToCSV(&gen.Table{Cols: cs, Rows: gen.Shuffle(rng, rows)}, 0), mon.IngestCfg{PK: pkNames, Workers: 1})
		if err != nil || pn != "" {
			o.Status = "inconclusive"
			o.Note = fmt.Sprintf("ingest failed: %v %s", err, pn)
			return nil, nil, false
		}
		tc, issues := mon.CheckTable(db, sum, mon.CheckOpts{})
		if len(issues) > 0 || len(tc.Rows) != len(rows) {
			o.Status = "inconclusive"
			o.Note = fmt.Sprintf("input table unsound (C03's business): %v rows %d/%d", issues, len(tc.Rows), len(rows))
			return nil, nil, false
		}
		return sum, tc, true
	}
	sum1, tc1, ok := ing(db1, cols, rows1)
	if !ok {
		return o
	}
	sum2, tc2, ok := ing(db2, cols2, rows2)
	if !ok {
		return o
	}
	v1, v2 := viewOf(tc1), viewOf(tc2)
	colsEqual := !p.ColsDiff
	type dirn struct {
		name     string
		dbA, dbB objects.Store
		sA, sB   []byte
		vA, vB   *tblView
	}
	var summary []string
	for _, d := range []dirn{{"diff(T1,T2)", db1, db2, sum1, sum2, v1, v2}, {"diff(T2,T1)", db2, db1, sum2, sum1, v2, v1}, {"diff(T1,T1)", db1, db1, sum1, sum1, v1, v1}} {
		var events []diffEvent
		var err error
		var stuck bool
		if pn := fw.Catch(func() { events, err, stuck = runDiff(d.dbA, d.dbB, d.sA, d.sB) }); pn != "" {
			o.Violate("panic/DiffTables/"+class, "%s: %s", d.name, pn)
			return o
		}
		o.Ev("oracle_evaluations", 1)
		if stuck {
			o.Status = "inconclusive"
			o.Note = d.name + " did not finish in 120s"
			return o
		}
		if err != nil {
			o.Violate("diff-error/DiffTables/"+class, "%s: error channel: %v", d.name, err)
			continue
		}
		ce := colsEqual || d.name == "diff(T1,T1)"
		cl, detail := checkDiff(events, d.vA, d.vB, ce)
		if cl != "" {
			o.Violate(cl+"/DiffTables/"+class, "%s (%d vs %d rows, pk %v): %s", d.name, len(d.vA.rows), len(d.vB.rows), pkNames, detail)
		} else {
			summary = append(summary, d.name+"="+detail)
			var a, r, m int
			fmt.Sscanf(detail, "%d/%d/%d", &a, &r, &m)
			o.Ev("events_added", int64(a))
			o.Ev("events_removed", int64(r))
			o.Ev("events_modified", int64(m))
		}
		if cl == "" && ce {
			if rcl, rdetail := c04Readers(d.dbA, d.dbB, d.sA, d.sB, events, d.vA, d.vB); rcl != "" {
				o.Violate(rcl+"/"+class, "%s: %s", d.name, rdetail)
			} else {
				o.Ev("events_resolved_through_readers", int64(len(events)))
			}
		}
		if d.name == "diff(T1,T1)" && len(events) != 0 && err == nil {
			// already reported by checkDiff as event-for-identical-row; keep an explicit clause
			o.Ev("self_diff_events", int64(len(events)))
		}
	}
	// one store read fails while the tables are diffed: the caller must hear about it (a diff that silently lacks events
	// is the alternative), or the events must still be complete
	if c.Seed%4 == 0 && colsEqual && len(rows1)+len(rows2) > 0 {
		probe := &mon.Faults{}
		runDiff(&mon.FaultObjStore{S: db1, F: probe}, &mon.FaultObjStore{S: db2, F: probe}, sum1, sum2)
		for _, k := range []int64{1 + int64(c.Seed/4)%max64(probe.N, 1), probe.N, probe.N - 1, (probe.N + 1) / 2} {
			if k < 1 || k > probe.N {
				continue
			}
			f := &mon.Faults{FailAt: k}
			var events []diffEvent
			var err error
			var stuck bool
			if pn := fw.Catch(func() {
				events, err, stuck = runDiff(&mon.FaultObjStore{S: db1, F: f}, &mon.FaultObjStore{S: db2, F: f}, sum1, sum2)
			}); pn != "" {
				o.Violate("panic/DiffTables/read-error/"+class, "read %d of %d fails: %s", k, probe.N, pn)
				break
			}
			o.Ev("oracle_evaluations", 1)
			o.Ev("diffs_with_a_failing_read", 1)
			if stuck {
				o.Violate("hang/DiffTables/read-error/"+class, "read %d of %d fails and the diff channel is never closed", k, probe.N)
				break
			}
			if err == nil && f.N >= k {
				if cl, detail := checkDiff(events, v1, v2, true); cl != "" {
					o.Violate("read-error-swallowed/DiffTables/"+class, "store read %d of %d failed, no error was reported and the events are incomplete: %s (%s)", k, probe.N, cl, detail)
					break
				}
			} else if err != nil {
				o.Ev("read_errors_reported", 1)
			}
		}
	}
	if len(rows1) == 0 || len(rows2) == 0 {
		o.Ev("empty_side_cases", 1)
	}
	if len(rows1)+len(rows2) >= 2 {
		o.Key("%s/%d-%d/%d", class, len(rows1), len(rows2), c.Seed%100000)
	}
	o.Set("scenario", class)
	o.Sample = map[string]interface{}{"scenario": p.Scenario, "rows1": len(rows1), "rows2": len(rows2), "pk": pkNames, "cols_differ": p.ColsDiff, "added/removed/modified": summary}
	return o
}

var _ = bytes.Equal

func init() {
	fw.Register(&fw.Property{
		ID:          "C04",
		Level:       "exploration",
		Rule:        "table pairs from one key universe (disjoint either way, interleaved, nested, identical, shifted by 1/254/255/256 rows so every block boundary moves, random overlap; 0/1/255/256/765 rows on either side incl. empty; single, composite and absent keys; optional extra column; same or separate stores), both built by ingest with unique keys and verified by the structural monitor first; diff(T1,T2), diff(T2,T1) and diff(T1,T1) are drained and compared with a set-difference model keyed by key hash: exactly one event per added/removed/modified key, none for identical rows, none twice, offsets and row hashes address the right rows (also when resolved through RowListReader / RowChangeReader), error channel empty; through the CLI the DIFF_*.csv report of `wrgl diff a b --no-gui` must list exactly the model's added / removed / modified rows (keyed and keyless tables) and the summary of `wrgl diff --all` the same three counts; with one store read failing the error must be reported or the events still be complete; distinct_nontrivial = distinct (scenario, key class, sizes, seed)",
		Assumptions: []string{"when the column lists differ the statement is silent about common keys: only added/removed are judged exactly", "tables without a primary key whose column lists differ are not diffed row by row by design (DiffTables reports nothing, the commands show the column change only): not judged", "inputs are C03-valid tables with unique keys"},
		Gen: func(tier string, seed int64) []fw.Case {
			l := fw.NewCaseList("C04", tier, seed)
			rng := l.Rng()
			// fixed: empty sides
			for _, n := range [][2]int{{0, 0}, {0, 1}, {1, 0}, {0, 300}, {300, 0}, {255, 0}} {
				for _, pk := range [][]int{{0}, nil} {
					l.Add("fixed", c04Params{Scenario: "disjoint", N1: n[0], N2: n[1], NCols: 3, PK: pk, ModRate: 0.2}, int64(900+n[0]+n[1]))
				}
			}
			scen := []string{"disjoint", "disjoint-rev", "interleaved", "nested", "identical", "shifted", "random", "random"}
			sizes := []int{0, 1, 2, 50, 254, 255, 256, 300, 510, 511, 765, 766}
			for i := 0; i < l.N(300, 30000); i++ {
				p := c04Params{Scenario: scen[rng.Intn(len(scen))], NCols: 1 + rng.Intn(4), ModRate: []float64{0, 0.05, 0.5}[rng.Intn(3)]}
				p.N1, p.N2 = sizes[rng.Intn(len(sizes))], sizes[rng.Intn(len(sizes))]
				if rng.Intn(3) == 0 {
					p.N1, p.N2 = rng.Intn(900), rng.Intn(900)
				}
				p.PK = gen.PKChoice(rng, p.NCols)
				p.ColsDiff = len(p.PK) > 0 && rng.Intn(8) == 0
				p.TwoStores = rng.Intn(4) == 0
				if p.Scenario == "shifted" && p.N1 == 0 {
					p.N1 = 300
				}
				l.Add("pair", p, 0)
			}
			// the report of `wrgl diff A B --no-gui` (keyed, composite and keyless tables)
			for i := 0; i < l.N(24, 1500); i++ {
				p := c04Params{CLI: true, Scenario: scen[rng.Intn(len(scen))], NCols: 2 + rng.Intn(3), ModRate: []float64{0, 0.1, 0.5}[rng.Intn(3)]}
				p.N1, p.N2 = []int{1, 3, 40, 260}[rng.Intn(4)], []int{1, 3, 40, 260}[rng.Intn(4)]
				p.PK = gen.PKChoice(rng, p.NCols)
				if i%3 == 0 {
					p.PK = nil
				}
				l.Add("cli", p, 0)
			}
			return l.Cases
		},
		Run: c04Run,
	})
}

// c04Readers resolves the events back to rows through the readers the diff command uses (RowListReader for added and
// removed rows, RowChangeReader for modified ones): "each event's offsets address the right rows" as the consumer sees it.
func c04Readers(dbA, dbB objects.Store, sA, sB []byte, events []diffEvent, vA, vB *tblView) (clause, detail string) {
	tA, err := objects.GetTable(dbA, sA)
	if err != nil {
		return "", ""
	}
	tB, err := objects.GetTable(dbB, sB)
	if err != nil {
		return "", ""
	}
	cd := diff.CompareColumns([2][]string{tB.Columns, tB.PrimaryKey()}, [2][]string{tA.Columns, tA.PrimaryKey()})
	colOf := map[string]int{}
	for i, c := range tA.Columns {
		colOf[c] = i
	}
	var added, removed *diff.RowListReader
	var changed *diff.RowChangeReader
	var addedIdx, removedIdx []int
	var changedIdx [][2]int
	for _, e := range events {
		i1, i2 := vA.byKey[e.PK], vB.byKey[e.PK]
		switch {
		case e.OldSum == "":
			if added == nil {
				if added, err = diff.NewRowListReader(dbA, tA); err != nil {
					return "reader-error/RowListReader", err.Error()
				}
			}
			added.Add(e.Offset)
			addedIdx = append(addedIdx, i1)
		case e.Sum == "":
			if removed == nil {
				if removed, err = diff.NewRowListReader(dbB, tB); err != nil {
					return "reader-error/RowListReader", err.Error()
				}
			}
			removed.Add(e.OldOffset)
			removedIdx = append(removedIdx, i2)
		default:
			if changed == nil {
				if changed, err = diff.NewRowChangeReader(dbA, dbB, tA, tB, cd); err != nil {
					return "reader-error/RowChangeReader", err.Error()
				}
			}
			changed.AddRowDiff(&objects.Diff{PK: []byte(e.PK), Sum: []byte(e.Sum), OldSum: []byte(e.OldSum), Offset: e.Offset, OldOffset: e.OldOffset})
			changedIdx = append(changedIdx, [2]int{i1, i2})
		}
	}
	var rcl, rdetail string
	if pn := fw.Catch(func() {
		for k, i := range addedIdx {
			row, err := added.Read()
			if err != nil || !strEq(row, vA.rows[i]) {
				rcl, rdetail = "reader-wrong-row/RowListReader", fmt.Sprintf("added event %d resolves to %q (err %v), the row is %q", k, trunc(row), err, trunc(vA.rows[i]))
				return
			}
		}
		for k, i := range removedIdx {
			row, err := removed.Read()
			if err != nil || !strEq(row, vB.rows[i]) {
				rcl, rdetail = "reader-wrong-row/RowListReader", fmt.Sprintf("removed event %d resolves to %q (err %v), the row is %q", k, trunc(row), err, trunc(vB.rows[i]))
				return
			}
		}
		for k, ix := range changedIdx {
			merged, err := changed.Read()
			if err != nil || len(merged) != len(cd.Names) {
				rcl, rdetail = "reader-wrong-row/RowChangeReader", fmt.Sprintf("modified event %d: err %v, %d cells for %d columns", k, err, len(merged), len(cd.Names))
				return
			}
			for j, name := range cd.Names {
				c := colOf[name]
				nv, ov := vA.rows[ix[0]][c], vB.rows[ix[1]][c]
				want := []string{nv}
				if nv != ov {
					want = []string{nv, ov}
				}
				if !strEq(merged[j], want) {
					rcl, rdetail = "reader-wrong-row/RowChangeReader", fmt.Sprintf("modified event %d, column %s: reader gives %q, the rows at the event's offsets hold %q", k, name, trunc(merged[j]), trunc(want))
					return
				}
			}
		}
	}); pn != "" {
		return "panic/row-readers", pn
	}
	return rcl, rdetail
}

// c04CLI commits the two tables to two branches and judges the report file of `wrgl diff a b --no-gui`.
func c04CLI(c *fw.Case, env *fw.Env, o *fw.Obs, p *c04Params, cols []string, rows1, rows2 [][]string, class string) *fw.Obs {
	class += "/cli"
	t1 := gen.Normalize(&gen.Table{Cols: cols, Rows: rows1})
	t2 := gen.Normalize(&gen.Table{Cols: cols, Rows: rows2})
	pk := p.PK
	if len(pk) == 0 {
		pk = make([]int, len(cols))
		for i := range pk {
			pk[i] = i
		}
	}
	if gen.Model(t1.Rows, pk, len(cols)).Dups > 0 || gen.Model(t2.Rows, pk, len(cols)).Dups > 0 || len(t1.Rows) != len(rows1) || len(t2.Rows) != len(rows2) {
		o.Note = "keys collide after CSV normalisation; skipped"
		return o
	}
	root := filepath.Join(env.Dir, "repo-"+c.ID)
	os.RemoveAll(root)
	defer os.RemoveAll(root)
	wd, err := mon.NewRepo(root)
	if err != nil {
		o.Status = "inconclusive"
		o.Note = err.Error()
		return o
	}
	pkNames := gen.ColNames(cols, p.PK)
	for _, b := range []struct {
		name string
		t    *gen.Table
	}{{"a", t1}, {"b", t2}} {
		fp := filepath.Join(root, b.name+".csv")
		os.WriteFile(fp, gen.ToCSV(b.t, 0), 0644)
		args := []string{"commit", b.name, fp, "c", "--no-progress", "-n", "3"}
		if len(pkNames) > 0 {
			args = append(args, "-p", strings.Join(pkNames, ","))
		}
		if out, err, pn := mon.Wrgl(wd, nil, args...); err != nil || pn != "" {
			o.Status = "inconclusive"
			o.Note = fmt.Sprintf("commit %s: %v %s %s", b.name, err, pn, out)
			return o
		}
	}
	cwd, _ := os.Getwd()
	old, _ := filepath.Glob(filepath.Join(cwd, "DIFF_*.csv"))
	for _, f := range old {
		os.Remove(f)
	}
	out, err, pn := mon.Wrgl(wd, nil, "diff", "a", "b", "--no-gui")
	o.Ev("oracle_evaluations", 1)
	o.Ev("cli_diff_reports", 1)
	if pn != "" {
		o.Violate("panic/wrgl-diff/"+class, "%s", pn)
		return o
	}
	if err != nil {
		o.Violate("diff-error/wrgl-diff/"+class, "%v %s", err, out)
		return o
	}
	files, _ := filepath.Glob(filepath.Join(cwd, "DIFF_*.csv"))
	keyOf := func(r []string) string {
		var ks []string
		for _, k := range pk {
			if k < len(r) {
				ks = append(ks, fmt.Sprintf("%d:%s", len(r[k]), r[k]))
			}
		}
		return strings.Join(ks, "|")
	}
	m1, m2 := map[string][]string{}, map[string][]string{}
	for _, r := range t1.Rows {
		m1[keyOf(r)] = r
	}
	for _, r := range t2.Rows {
		m2[keyOf(r)] = r
	}
	wantAdded, wantRemoved, wantMod := 0, 0, 0
	for k, r := range m1 {
		if r2, ok := m2[k]; !ok {
			wantAdded++
		} else if !strEq(r, r2) {
			wantMod++
		}
	}
	for k := range m2 {
		if _, ok := m1[k]; !ok {
			wantRemoved++
		}
	}
	if len(files) != 1 {
		if wantAdded+wantRemoved+wantMod == 0 && len(files) == 0 {
			return o // nothing to report and no report: fine
		}
		o.Violate("report-missing/wrgl-diff/"+class, "expected one DIFF_*.csv, found %v; output %q", files, out)
		return o
	}
	b, _ := os.ReadFile(files[0])
	os.Remove(files[0])
	// the file is not rectangular only if wrgl writes it so; parse leniently line by line
	rd := csv.NewReader(bytes.NewReader(b))
	rd.FieldsPerRecord = -1
	recs, perr := rd.ReadAll()
	if perr != nil || len(recs) < 4 {
		o.Violate("report-unparsable/wrgl-diff/"+class, "%v (%d records)", perr, len(recs))
		return o
	}
	// every row line is laid out in the merged column order of the two tables (key columns first)
	names := diff.CompareColumns([2][]string{cols, pkNames}, [2][]string{cols, pkNames}).Names
	toRow := func(cells []string) []string {
		r := make([]string, len(cols))
		for j, n := range names {
			for ci, cn := range cols {
				if cn == n && j < len(cells) {
					r[ci] = cells[j]
				}
			}
		}
		return r
	}
	gotAdded, gotRemoved, gotMod := 0, 0, 0
	seen := map[string]bool{}
	var base []string
	for _, rec := range recs[4:] {
		label, row := rec[0], toRow(rec[1:])
		k := keyOf(row)
		switch {
		case strings.HasPrefix(label, "ADDED IN"):
			if r, ok := m1[k]; !ok || m2[k] != nil || !strEq(r, row) || seen["a"+k] {
				o.Violate("spurious-added/wrgl-diff/"+class, "report lists %q as added; in a: %v, in b: %v", trunc(row), m1[k] != nil, m2[k] != nil)
				return o
			}
			seen["a"+k] = true
			gotAdded++
		case strings.HasPrefix(label, "REMOVED IN"):
			if r, ok := m2[k]; !ok || m1[k] != nil || !strEq(r, row) || seen["r"+k] {
				o.Violate("spurious-removed/wrgl-diff/"+class, "report lists %q as removed; in a: %v, in b: %v", trunc(row), m1[k] != nil, m2[k] != nil)
				return o
			}
			seen["r"+k] = true
			gotRemoved++
		case strings.HasPrefix(label, "BASE ROW FROM"):
			base = row
		case strings.HasPrefix(label, "MODIFIED IN"):
			if base == nil || keyOf(base) != k || !strEq(m2[k], base) || !strEq(m1[k], row) || strEq(base, row) || seen["m"+k] {
				o.Violate("spurious-modified/wrgl-diff/"+class, "report lists %q -> %q as modified; the tables hold %q -> %q", trunc(base), trunc(row), trunc(m2[k]), trunc(m1[k]))
				return o
			}
			seen["m"+k] = true
			base = nil
			gotMod++
		default:
			o.Violate("report-unparsable/wrgl-diff/"+class, "unknown line label %q", label)
			return o
		}
	}
	if gotAdded != wantAdded || gotRemoved != wantRemoved || gotMod != wantMod {
		o.Violate("report-incomplete/wrgl-diff/"+class, "report lists %d added / %d removed / %d modified rows, the tables differ by %d / %d / %d (key %v)", gotAdded, gotRemoved, gotMod, wantAdded, wantRemoved, wantMod, pkNames)
		return o
	}
	o.Ev("events_added", int64(gotAdded))
	o.Ev("events_removed", int64(gotRemoved))
	o.Ev("events_modified", int64(gotMod))
	// the summary form: branch s was committed from s.csv when it held table 2; the file now holds table 1;
	// `wrgl diff --all` must summarise exactly the same three counts for it
	sp := filepath.Join(root, "s.csv")
	os.WriteFile(sp, gen.ToCSV(t2, 0), 0644)
	sargs := []string{"commit", "s", sp, "c", "--no-progress", "-n", "3", "--set-file", "--set-primary-key"}
	if len(pkNames) > 0 {
		sargs = append(sargs, "-p", strings.Join(pkNames, ","))
	}
	if _, err, pn := mon.Wrgl(wd, nil, sargs...); err == nil && pn == "" {
		os.WriteFile(sp, gen.ToCSV(t1, 0), 0644)
		future := time.Now().Add(3 * time.Second)
		os.Chtimes(sp, future, future) // the file is newer than anything cached, whatever the second we are in
		sout, err, pn := mon.Wrgl(wd, nil, "diff", "--all")
		o.Ev("oracle_evaluations", 1)
		o.Ev("cli_diff_summaries", 1)
		if pn != "" {
			o.Violate("panic/wrgl-diff-all/"+class, "%s", pn)
			return o
		}
		if err != nil {
			o.Violate("diff-error/wrgl-diff-all/"+class, "%v %s", err, sout)
			return o
		}
		plain := regexp.MustCompile("\\x1b\\[[0-9;]*m").ReplaceAllString(sout, "")
		line := ""
		for _, l := range strings.Split(plain, "\n") {
			if f := strings.Fields(l); len(f) > 0 && f[0] == "s" {
				line = l
			}
		}
		num := func(re string) int {
			if m := regexp.MustCompile(re).FindStringSubmatch(line); m != nil {
				n, _ := strconv.Atoi(m[1])
				return n
			}
			return 0
		}
		sa, sr, sm := 0, 0, 0
		if i := strings.Index(line, "rows:"); i >= 0 {
			line = line[i:]
			sa, sr, sm = num(`\+(\d+)`), num(`-(\d+)`), num(`m(\d+)`)
		} else {
			line = ""
		}
		if sa != wantAdded || sr != wantRemoved || sm != wantMod {
			o.Violate("summary-wrong/wrgl-diff-all/"+class, "`wrgl diff --all` summarises branch s as %q, the file differs from the branch by +%d/-%d/m%d (key %v)", strings.TrimSpace(line), wantAdded, wantRemoved, wantMod, pkNames)
			return o
		}
	}
	if len(t1.Rows)+len(t2.Rows) >= 2 {
		o.Key("%s/%d-%d/%d", class, len(t1.Rows), len(t2.Rows), c.Seed%100000)
	}
	o.Set("scenario", class)
	o.Sample = map[string]interface{}{"scenario": p.Scenario, "via": "wrgl diff --no-gui", "rows1": len(t1.Rows), "rows2": len(t2.Rows), "pk": pkNames, "added/removed/modified": fmt.Sprintf("%d/%d/%d", gotAdded, gotRemoved, gotMod)}
	return o
}
