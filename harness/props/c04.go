package props

import (
	"bytes"
	"fmt"
	"math/rand"
	"sort"
	"time"

	"github.com/go-logr/logr"
	"github.com/wrgl/wrgl/pkg/diff"
	"github.com/wrgl/wrgl/pkg/objects"

	"verif/fw"
	"verif/gen"
	"verif/mon"
)

// C04 — diff reports exactly the rows added, removed and modified between two tables.

type c04Params struct {
	Scenario  string  `json:"scenario"`
	N1        int     `json:"n1"`
	N2        int     `json:"n2"`
	NCols     int     `json:"ncols"`
	PK        []int   `json:"pk"`
	ColsDiff  bool    `json:"cols_differ"` // table 2 has an extra non-key column
	TwoStores bool    `json:"two_stores"`
	ModRate   float64 `json:"mod_rate"`
}

type diffEvent struct {
	PK        string
	Sum       string
	OldSum    string
	Offset    uint32
	OldOffset uint32
}

// runDiff drains diff.DiffTables. A panic inside wrgl's goroutine kills the process (observed by the supervisor).
func runDiff(db1, db2 objects.Store, sum1, sum2 []byte, opts ...diff.DiffOption) (events []diffEvent, err error, stuck bool) {
	t1, err := objects.GetTable(db1, sum1)
	if err != nil {
		return nil, fmt.Errorf("GetTable 1: %v", err), false
	}
	t2, err := objects.GetTable(db2, sum2)
	if err != nil {
		return nil, fmt.Errorf("GetTable 2: %v", err), false
	}
	idx1, err := objects.GetTableIndex(db1, sum1)
	if err != nil {
		return nil, fmt.Errorf("GetTableIndex 1: %v", err), false
	}
	idx2, err := objects.GetTableIndex(db2, sum2)
	if err != nil {
		return nil, fmt.Errorf("GetTableIndex 2: %v", err), false
	}
	errChan := make(chan error, 10)
	ch, _ := diff.DiffTables(db1, db2, t1, t2, idx1, idx2, errChan, logr.Discard(), opts...)
	timeout := time.After(120 * time.Second)
loop:
	for {
		select {
		case d, ok := <-ch:
			if !ok {
				break loop
			}
			events = append(events, diffEvent{PK: string(d.PK), Sum: string(d.Sum), OldSum: string(d.OldSum), Offset: d.Offset, OldOffset: d.OldOffset})
		case <-timeout:
			return events, nil, true
		}
	}
	close(errChan)
	if e, ok := <-errChan; ok {
		err = e
	}
	return events, err, false
}

type tblView struct {
	rows    [][]string
	keyHash []string
	rowHash []string
	byKey   map[string]int
}

func viewOf(tc *mon.TableContent) *tblView {
	v := &tblView{rows: tc.Rows, byKey: map[string]int{}}
	pk := tc.Table.PK
	for i, r := range tc.Rows {
		rh := string(meowSum(mon.EncodeStrList(r)))
		kh := rh
		if len(pk) > 0 {
			kh = string(meowSum(mon.EncodeStrList(mon.KeyOf(r, pk))))
		}
		v.keyHash = append(v.keyHash, kh)
		v.rowHash = append(v.rowHash, rh)
		v.byKey[kh] = i
	}
	return v
}

// checkDiff compares the observed events for diff(T1,T2) with the model. Returns "" or (clause, detail).
func checkDiff(events []diffEvent, v1, v2 *tblView, colsEqual bool) (string, string) {
	seen := map[string]bool{}
	nAdded, nRemoved, nModified := 0, 0, 0
	for _, e := range events {
		if seen[e.PK] {
			return "key-reported-twice", fmt.Sprintf("key hash %x reported twice", e.PK)
		}
		seen[e.PK] = true
		i1, in1 := v1.byKey[e.PK]
		i2, in2 := v2.byKey[e.PK]
		switch {
		case e.Sum != "" && e.OldSum == "":
			if !in1 || in2 {
				return "spurious-added", fmt.Sprintf("added event for key %x (in table1: %v, in table2: %v)", e.PK, in1, in2)
			}
			if e.Sum != v1.rowHash[i1] {
				return "wrong-row-hash", fmt.Sprintf("added event for key %x carries a row hash that is not the row's", e.PK)
			}
			if int(e.Offset) != i1 {
				return "wrong-offset", fmt.Sprintf("added event for key %x has offset %d, row is at %d", e.PK, e.Offset, i1)
			}
			nAdded++
		case e.Sum == "" && e.OldSum != "":
			if in1 || !in2 {
				return "spurious-removed", fmt.Sprintf("removed event for key %x (in table1: %v, in table2: %v)", e.PK, in1, in2)
			}
			if e.OldSum != v2.rowHash[i2] {
				return "wrong-row-hash", fmt.Sprintf("removed event for key %x carries a row hash that is not the row's", e.PK)
			}
			if int(e.OldOffset) != i2 {
				return "wrong-offset", fmt.Sprintf("removed event for key %x has old offset %d, row is at %d", e.PK, e.OldOffset, i2)
			}
			nRemoved++
		case e.Sum != "" && e.OldSum != "":
			if !in1 || !in2 {
				return "spurious-modified", fmt.Sprintf("modified event for key %x (in table1: %v, in table2: %v)", e.PK, in1, in2)
			}
			if e.Sum != v1.rowHash[i1] || e.OldSum != v2.rowHash[i2] {
				return "wrong-row-hash", fmt.Sprintf("modified event for key %x carries hashes that are not the rows'", e.PK)
			}
			if int(e.Offset) != i1 || int(e.OldOffset) != i2 {
				return "wrong-offset", fmt.Sprintf("modified event for key %x has offsets (%d,%d), rows are at (%d,%d)", e.PK, e.Offset, e.OldOffset, i1, i2)
			}
			if colsEqual && e.Sum == e.OldSum {
				return "event-for-identical-row", fmt.Sprintf("event for key %x whose rows are identical", e.PK)
			}
			nModified++
		default:
			return "empty-event", fmt.Sprintf("event for key %x with neither row", e.PK)
		}
	}
	for kh, i1 := range v1.byKey {
		i2, in2 := v2.byKey[kh]
		if !in2 && !seen[kh] {
			return "missing-added", fmt.Sprintf("key %q (row %d of table 1) is only in table 1 but no event was emitted", trunc(v1.rows[i1]), i1)
		}
		if in2 && colsEqual && v1.rowHash[i1] != v2.rowHash[i2] && !seen[kh] {
			return "missing-modified", fmt.Sprintf("key of row %d/%d differs in content but no event was emitted (%q vs %q)", i1, i2, trunc(v1.rows[i1]), trunc(v2.rows[i2]))
		}
	}
	for kh, i2 := range v2.byKey {
		if _, in1 := v1.byKey[kh]; !in1 && !seen[kh] {
			return "missing-removed", fmt.Sprintf("key %q (row %d of table 2) is only in table 2 but no event was emitted", trunc(v2.rows[i2]), i2)
		}
	}
	return "", fmt.Sprintf("%d/%d/%d", nAdded, nRemoved, nModified)
}

func trunc(sl []string) []string {
	r := make([]string, len(sl))
	for i, s := range sl {
		if len(s) > 24 {
			s = s[:24] + "…"
		}
		r[i] = s
	}
	return r
}

// genPair builds two row sets over one key universe according to the scenario.
func genPair(rng *rand.Rand, p *c04Params) (cols []string, rows1, rows2 [][]string) {
	cols = gen.Cols(p.NCols)
	total := p.N1 + p.N2
	// universe of unique keys, sorted, so that scenarios can talk about key ranges
	u := gen.GenTable(rng, gen.Opts{Rows: total + 4, NCols: p.NCols, Style: gen.CellTiny, PK: p.PK, UniqueKey: true})
	if rng.Intn(2) == 0 {
		u = gen.GenTable(rng, gen.Opts{Rows: total + 4, NCols: p.NCols, Style: gen.CellSimple, PK: p.PK, UniqueKey: true})
	}
	pk := p.PK
	if len(pk) == 0 {
		pk = make([]int, p.NCols)
		for i := range pk {
			pk[i] = i
		}
	}
	rows := u.Rows
	if p.NCols == 1 {
		// a one-column CSV row with an empty cell is a blank line, which CSV readers skip
		for _, r := range rows {
			if r[0] == "" {
				r[0] = "_empty"
			}
		}
	}
	sort.Slice(rows, func(i, j int) bool {
		for _, c := range pk {
			if rows[i][c] != rows[j][c] {
				return rows[i][c] < rows[j][c]
			}
		}
		return false
	})
	pick := func(idx []int) [][]string {
		var r [][]string
		for _, i := range idx {
			if i >= 0 && i < len(rows) {
				r = append(r, append([]string(nil), rows[i]...))
			}
		}
		return r
	}
	rangeIdx := func(a, b int) []int {
		var r []int
		for i := a; i < b; i++ {
			r = append(r, i)
		}
		return r
	}
	switch p.Scenario {
	case "disjoint":
		rows1, rows2 = pick(rangeIdx(0, p.N1)), pick(rangeIdx(p.N1, p.N1+p.N2))
	case "disjoint-rev":
		rows2, rows1 = pick(rangeIdx(0, p.N2)), pick(rangeIdx(p.N2, p.N1+p.N2))
	case "interleaved":
		var a, b []int
		for i := 0; i < total; i++ {
			if i%2 == 0 && len(a) < p.N1 {
				a = append(a, i)
			} else if len(b) < p.N2 {
				b = append(b, i)
			} else {
				a = append(a, i)
			}
		}
		rows1, rows2 = pick(a), pick(b)
	case "nested":
		n := p.N1
		if p.N2 > n {
			n = p.N2
		}
		big := rangeIdx(0, n)
		small := n/3 + 1
		if p.N1 >= p.N2 {
			rows1, rows2 = pick(big), pick(rangeIdx(n/3, n/3+min(p.N2, small*2)))
		} else {
			rows2, rows1 = pick(big), pick(rangeIdx(n/3, n/3+min(p.N1, small*2)))
		}
	case "identical":
		rows1 = pick(rangeIdx(0, p.N1))
		rows2 = pick(rangeIdx(0, p.N1))
	case "shifted":
		// same keys but table 2 additionally has `shift` smaller keys: every block boundary moves
		shift := []int{1, 254, 255, 256}[rng.Intn(4)]
		if shift > p.N2 {
			shift = 1
		}
		rows1 = pick(rangeIdx(shift, shift+p.N1))
		rows2 = pick(rangeIdx(0, shift+p.N1))
	default: // random overlap
		var a, b []int
		for i := 0; i < total; i++ {
			switch rng.Intn(3) {
			case 0:
				a = append(a, i)
			case 1:
				b = append(b, i)
			default:
				a = append(a, i)
				b = append(b, i)
			}
		}
		if len(a) > p.N1 {
			a = a[:p.N1]
		}
		if len(b) > p.N2 {
			b = b[len(b)-p.N2:]
		}
		rows1, rows2 = pick(a), pick(b)
	}
	// modify non-key cells of some shared rows in table 2 (keyed tables only)
	if len(p.PK) > 0 && len(p.PK) < p.NCols {
		isKey := map[int]bool{}
		for _, k := range p.PK {
			isKey[k] = true
		}
		var non []int
		for c := 0; c < p.NCols; c++ {
			if !isKey[c] {
				non = append(non, c)
			}
		}
		for _, r := range rows2 {
			if rng.Float64() < p.ModRate {
				c := non[rng.Intn(len(non))]
				r[c] += "*"
			}
		}
	}
	return
}

func c04Run(c *fw.Case, env *fw.Env) *fw.Obs {
	o := fw.NewObs(c)
	var p c04Params
	c.P(&p)
	rng := c.Rand()
	cols, rows1, rows2 := genPair(rng, &p)
	cols2 := cols
	if p.ColsDiff {
		cols2 = append(append([]string(nil), cols...), "extra")
		for i := range rows2 {
			rows2[i] = append(rows2[i], fmt.Sprint(i%3))
		}
	}
	class := p.Scenario + "/" + pkClass(p.PK) + "/" + sizeClass(len(rows1)) + "-" + sizeClass(len(rows2))
	if p.ColsDiff {
		class += "/cols-differ"
	}
	db1 := mon.NewMemStore()
	var db2 objects.Store = db1
	if p.TwoStores {
		db2 = mon.NewMemStore()
	}
	pkNames := gen.ColNames(cols, p.PK)
	ing := func(db objects.Store, cs []string, rows [][]string) ([]byte, *mon.TableContent, bool) {
		sum, err, pn := mon.Ingest(db, gen.ToCSV(&gen.Table{Cols: cs, Rows: gen.Shuffle(rng, rows)}, 0), mon.IngestCfg{PK: pkNames, Workers: 1})
		if err != nil || pn != "" {
			o.Status = "inconclusive"
			o.Note = fmt.Sprintf("ingest failed: %v %s", err, pn)
			return nil, nil, false
		}
		tc, issues := mon.CheckTable(db, sum, mon.CheckOpts{})
		if len(issues) > 0 || len(tc.Rows) != len(rows) {
			o.Status = "inconclusive"
			o.Note = fmt.Sprintf("input table unsound (C03's business): %v rows %d/%d", issues, len(tc.Rows), len(rows))
			return nil, nil, false
		}
		return sum, tc, true
	}
	sum1, tc1, ok := ing(db1, cols, rows1)
	if !ok {
		return o
	}
	sum2, tc2, ok := ing(db2, cols2, rows2)
	if !ok {
		return o
	}
	v1, v2 := viewOf(tc1), viewOf(tc2)
	colsEqual := !p.ColsDiff
	type dirn struct {
		name     string
		dbA, dbB objects.Store
		sA, sB   []byte
		vA, vB   *tblView
	}
	var summary []string
	for _, d := range []dirn{{"diff(T1,T2)", db1, db2, sum1, sum2, v1, v2}, {"diff(T2,T1)", db2, db1, sum2, sum1, v2, v1}, {"diff(T1,T1)", db1, db1, sum1, sum1, v1, v1}} {
		var events []diffEvent
		var err error
		var stuck bool
		if pn := fw.Catch(func() { events, err, stuck = runDiff(d.dbA, d.dbB, d.sA, d.sB) }); pn != "" {
			o.Violate("panic/DiffTables/"+class, "%s: %s", d.name, pn)
			return o
		}
		o.Ev("oracle_evaluations", 1)
		if stuck {
			o.Status = "inconclusive"
			o.Note = d.name + " did not finish in 120s"
			return o
		}
		if err != nil {
			o.Violate("diff-error/DiffTables/"+class, "%s: error channel: %v", d.name, err)
			continue
		}
		ce := colsEqual || d.name == "diff(T1,T1)"
		cl, detail := checkDiff(events, d.vA, d.vB, ce)
		if cl != "" {
			o.Violate(cl+"/DiffTables/"+class, "%s (%d vs %d rows, pk %v): %s", d.name, len(d.vA.rows), len(d.vB.rows), pkNames, detail)
		} else {
			summary = append(summary, d.name+"="+detail)
			var a, r, m int
			fmt.Sscanf(detail, "%d/%d/%d", &a, &r, &m)
			o.Ev("events_added", int64(a))
			o.Ev("events_removed", int64(r))
			o.Ev("events_modified", int64(m))
		}
		if d.name == "diff(T1,T1)" && len(events) != 0 && err == nil {
			// already reported by checkDiff as event-for-identical-row; keep an explicit clause
			o.Ev("self_diff_events", int64(len(events)))
		}
	}
	if len(rows1) == 0 || len(rows2) == 0 {
		o.Ev("empty_side_cases", 1)
	}
	if len(rows1)+len(rows2) >= 2 {
		o.Key("%s/%d-%d/%d", class, len(rows1), len(rows2), c.Seed%100000)
	}
	o.Set("scenario", class)
	o.Sample = map[string]interface{}{"scenario": p.Scenario, "rows1": len(rows1), "rows2": len(rows2), "pk": pkNames, "cols_differ": p.ColsDiff, "added/removed/modified": summary}
	return o
}

var _ = bytes.Equal

func init() {
	fw.Register(&fw.Property{
		ID:          "C04",
		Level:       "exploration",
		Rule:        "table pairs from one key universe (disjoint either way, interleaved, nested, identical, shifted by 1/254/255/256 rows so every block boundary moves, random overlap; 0/1/255/256/765 rows on either side incl. empty; single, composite and absent keys; optional extra column; same or separate stores), both built by ingest with unique keys and verified by the structural monitor first; diff(T1,T2), diff(T2,T1) and diff(T1,T1) are drained and compared with a set-difference model keyed by key hash: exactly one event per added/removed/modified key, none for identical rows, none twice, offsets and row hashes address the right rows, error channel empty; distinct_nontrivial = distinct (scenario, key class, sizes, seed)",
		Assumptions: []string{"when the column lists differ the statement is silent about common keys: only added/removed are judged exactly", "inputs are C03-valid tables with unique keys"},
		Gen: func(tier string, seed int64) []fw.Case {
			l := fw.NewCaseList("C04", tier, seed)
			rng := l.Rng()
			// fixed: empty sides
			for _, n := range [][2]int{{0, 0}, {0, 1}, {1, 0}, {0, 300}, {300, 0}, {255, 0}} {
				for _, pk := range [][]int{{0}, nil} {
					l.Add("fixed", c04Params{Scenario: "disjoint", N1: n[0], N2: n[1], NCols: 3, PK: pk, ModRate: 0.2}, int64(900+n[0]+n[1]))
				}
			}
			scen := []string{"disjoint", "disjoint-rev", "interleaved", "nested", "identical", "shifted", "random", "random"}
			sizes := []int{0, 1, 2, 50, 254, 255, 256, 300, 510, 511, 765, 766}
			for i := 0; i < l.N(300, 30000); i++ {
				p := c04Params{Scenario: scen[rng.Intn(len(scen))], NCols: 1 + rng.Intn(4), ModRate: []float64{0, 0.05, 0.5}[rng.Intn(3)]}
				p.N1, p.N2 = sizes[rng.Intn(len(sizes))], sizes[rng.Intn(len(sizes))]
				if rng.Intn(3) == 0 {
					p.N1, p.N2 = rng.Intn(900), rng.Intn(900)
				}
				p.PK = gen.PKChoice(rng, p.NCols)
				p.ColsDiff = len(p.PK) > 0 && rng.Intn(8) == 0
				p.TwoStores = rng.Intn(4) == 0
				if p.Scenario == "shifted" && p.N1 == 0 {
					p.N1 = 300
				}
				l.Add("pair", p, 0)
			}
			return l.Cases
		},
		Run: c04Run,
	})
}
