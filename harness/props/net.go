package props

import (
	"bytes"
	"errors"
	"fmt"
	"io"
	"math/rand"
	"os"
	"path/filepath"
	"sort"
	"strings"

	"github.com/go-logr/logr"
	apiclient "github.com/wrgl/wrgl/pkg/api/client"
	"github.com/wrgl/wrgl/pkg/objects"
	"github.com/wrgl/wrgl/pkg/ref"

	"verif/fw"
	"verif/mon"
	"verif/refserver"
)

// Shared scenario machinery for C09 (completeness after fetch/push) and C10 (refs only move forward).

type netParams struct {
	Op           string      `json:"op"` // fetch | push | pull | merge | fetch-pkg
	N            int         `json:"n"`
	BaseRows     int         `json:"base_rows"`
	Branches     int         `json:"branches"`
	Depth        int         `json:"depth"`
	Force        string      `json:"force"` // "" | global | refspec
	MaxPack      uint64      `json:"max_pack"`
	HavesRT      int         `json:"haves_rt"`
	Tags         bool        `json:"tags"`
	FF           string      `json:"ff"`                      // merge mode: "" | no-ff | ff-only
	Slow         bool        `json:"slow"`                    // server trickles packfiles one byte per flush
	Rel          string      `json:"rel,omitempty"`           // relation forced on the first branch
	Shape        [][]int     `json:"shape,omitempty"`         // explicit history shape; the single branch is "new" at the last commit
	All          bool        `json:"all,omitempty"`           // fetch --all: the refspecs come from the remote's configuration
	Narrow       bool        `json:"narrow,omitempty"`        // fetch: only the first branch's refspec is given; other branches and tags exist on the remote
	TagSrc       string      `json:"tag_src,omitempty"`       // push: how the tag's source is spelled: "" (refs/tags/x) | short (x:refs/tags/x) | bare (x) | head (refs/heads/b0:refs/tags/x)
	FailAt       int         `json:"fail_at,omitempty"`       // C09: a first attempt whose FailAt-th receiver-side store write fails, then the judged attempt
	RevertTo     map[int]int `json:"revert_to,omitempty"`     // history: commit i carries the table of the older commit RevertTo[i]
	PreOld       bool        `json:"pre_old,omitempty"`       // Pre: afterwards the remote also gets a branch `old` on a commit the earlier fetch left shallow
	PreOldTag    bool        `json:"pre_old_tag,omitempty"`   // Pre: ... and a tag `oldtag` (not named by any refspec) on such a commit
	Collide      bool        `json:"collide,omitempty"`       // fetch: two refspecs send a branch and a same-named tag (on another commit) to one destination
	OtherTrack   bool        `json:"other_track,omitempty"`   // push: the local repository has remote-tracking refs of another remote below the pushed commits
	FFConf       string      `json:"ff_conf,omitempty"`       // merge/pull: merge.fastForward in the configuration ("never" | "only"); FF "ff" is the flag that overrides it
	DotName      bool        `json:"dot_name,omitempty"`      // the first branch is called v1.0 (a name fetch and push accept, commit and branch do not)
	TwoRemotes   bool        `json:"two_remotes,omitempty"`   // fetch --all: a second remote at another path of the same host has a same-named branch at another commit
	PreMid       int         `json:"pre_mid,omitempty"`       // Pre: the earlier position of the branch (0 = pick a random ancestor)
	Pre          string      `json:"pre,omitempty"`           // fetch: "shallow-fetch" = an earlier `fetch --depth 1` of an ancestor of the branch left shallow commits behind
	ShallowLocal int         `json:"shallow_local,omitempty"` // push: this many non-tip commits of the pushed history lack their table locally (a shallow clone)
	Peel         int         `json:"peel,omitempty"`          // merge: the first argument is spelled b0^ / b0^^ (a commit below the branch, not the branch)
	TagSlash     bool        `json:"tag_slash,omitempty"`     // the first tag is called release/rel1 (a tag name with a slash in it)
	ShallowOther bool        `json:"shallow_other,omitempty"` // merge: the commit merged in is present locally without its table (left by a --depth fetch)
	Tags2        bool        `json:"tags2,omitempty"`         // a second tag zeta9 (sorting after rel1) that the receiver does not have or has at the same value
	Shadow       bool        `json:"shadow,omitempty"`        // merge/pull: a second local branch a/<name> exists whose name ends with the merged branch's name
	TagRel       string      `json:"tag_rel,omitempty"`       // relation forced on the tag: clobber = the receiver's tag sits on an ancestor of the sender's
	FailFrom     bool        `json:"fail_from,omitempty"`     // every write from FailAt on fails (disk full) instead of one
	H2           bool        `json:"h2,omitempty"`            // the reference server speaks HTTP/2 over TLS (wrgl's own client negotiates it)
	AbortAt      int         `json:"abort_at,omitempty"`      // the AbortAt-th packfile of the exchange is cut by the server mid-body (h2: stream reset, h1: dropped connection)
}

type branchPlan struct {
	Name     string
	Relation string // equal | remote-ahead | remote-behind | diverged | unrelated | new | tag-clobber
	Remote   int    // commit index the sending side has (-1 none)
	Local    int    // commit index the receiving side's ref currently has (-1 none)
}

type refState struct {
	vals map[string]string
	logs map[string][]logEntry
}

type logEntry struct {
	Old, New string
	Action   string
	Msg      string
}

func snapRefs(rs ref.Store) *refState {
	st := &refState{vals: map[string]string{}, logs: map[string][]logEntry{}}
	m, _ := ref.ListAllRefs(rs)
	for k, v := range m {
		st.vals[k] = string(v)
		if lr, err := rs.LogReader(k); err == nil {
			for {
				rl, err := lr.Read()
				if err != nil {
					break
				}
				st.logs[k] = append(st.logs[k], logEntry{string(rl.OldOID), string(rl.NewOID), rl.Action, rl.Message})
			}
			lr.Close()
		}
	}
	return st
}

type netWorld struct {
	h        *history
	all      *mon.MemStore
	plans    []branchPlan
	localDir string // .wrgl dir of the local repository
	remoteDB *mon.MemStore
	remoteRS ref.Store
	srv      *refserver.Server
	second   int // TwoRemotes: the commit the second remote's branch is at (-1 = no second remote)
	cleanup  []func()
}

func (w *netWorld) close() {
	for i := len(w.cleanup) - 1; i >= 0; i-- {
		w.cleanup[i]()
	}
}

// pickByRelation returns a commit index standing in the given relation to r (or -1).
func pickByRelation(rng *rand.Rand, h *history, r int, rel string) int {
	var cands []int
	for c := range h.sums {
		switch rel {
		case "remote-ahead": // receiver's value is a proper ancestor of r
			if c != r && h.anc[r][c] {
				cands = append(cands, c)
			}
		case "remote-behind": // receiver's value is a proper descendant of r
			if c != r && h.anc[c][r] {
				cands = append(cands, c)
			}
		case "diverged":
			if !h.anc[c][r] && !h.anc[r][c] {
				shared := false
				for a := range h.anc[c] {
					if h.anc[r][a] {
						shared = true
					}
				}
				if shared {
					cands = append(cands, c)
				}
			}
		case "unrelated":
			shared := false
			for a := range h.anc[c] {
				if h.anc[r][a] {
					shared = true
				}
			}
			if !shared {
				cands = append(cands, c)
			}
		}
	}
	if len(cands) == 0 {
		return -1
	}
	return cands[rng.Intn(len(cands))]
}

var netRelations = []string{"equal", "remote-ahead", "remote-ahead", "remote-behind", "diverged", "unrelated", "new", "new"}

// buildNet creates the history and both repositories. For fetch/pull the "sender" is the remote and
// the receiver's refs are local remote-tracking refs; for push the sender is the local repository.
func buildNet(c *fw.Case, env *fw.Env, p *netParams, rng *rand.Rand) (*netWorld, error) {
	w := &netWorld{all: mon.NewMemStore()}
	h, err := buildHistory(w.all, rng, histOpts{N: p.N, BaseRows: p.BaseRows, Roots: 2, Parents: p.Shape, RevertTo: p.RevertTo, Rekey: true})
	if err != nil {
		return nil, err
	}
	w.h = h
	if p.Shape != nil {
		p.N = len(p.Shape)
		p.Branches = 0
		w.plans = append(w.plans, branchPlan{Name: "b0", Relation: "new", Remote: p.N - 1, Local: -1})
	}
	for b := 0; b < p.Branches; b++ {
		pl := branchPlan{Name: fmt.Sprintf("b%d", b), Relation: netRelations[rng.Intn(len(netRelations))], Remote: rng.Intn(p.N), Local: -1}
		if b == 0 && p.DotName {
			pl.Name = "v1.0"
		}
		if b == 0 && p.Rel != "" {
			pl.Relation = p.Rel
			// look for a commit that admits the relation
			for try := 0; try < 20 && pl.Relation != "equal" && pl.Relation != "new" && pickByRelation(rng, h, pl.Remote, pl.Relation) < 0; try++ {
				pl.Remote = rng.Intn(p.N)
			}
		}
		switch pl.Relation {
		case "equal":
			pl.Local = pl.Remote
		case "new":
		default:
			pl.Local = pickByRelation(rng, h, pl.Remote, pl.Relation)
			if pl.Local < 0 {
				pl.Relation = "new"
			}
		}
		w.plans = append(w.plans, pl)
	}
	if p.Tags {
		r := rng.Intn(p.N)
		tagName := "tag:rel1"
		if p.TagSlash {
			tagName = "tag:release/rel1"
		}
		pl := branchPlan{Name: tagName, Relation: []string{"new", "tag-clobber", "equal"}[rng.Intn(3)], Remote: r, Local: -1}
		if p.Narrow && len(w.plans) > 0 {
			// the tag sits on a commit the requested branch does not reach, where there is one
			var off []int
			for c := range h.sums {
				if !h.anc[w.plans[0].Remote][c] {
					off = append(off, c)
				}
			}
			if len(off) > 0 {
				r = off[rng.Intn(len(off))]
				pl.Remote, pl.Relation = r, "new"
			}
		}
		if p.TagSrc == "head" && len(w.plans) > 0 && !strings.HasPrefix(w.plans[0].Name, "tag:") {
			r = w.plans[0].Remote // the tag is pushed from the first branch
			pl.Remote = r
		}
		if p.TagRel == "clobber" {
			pl.Relation = "tag-clobber"
			for try := 0; try < 20 && p.TagSrc != "head" && pickByRelation(rng, h, r, "remote-ahead") < 0; try++ {
				r = rng.Intn(p.N)
				pl.Remote = r
			}
		}
		if pl.Relation == "tag-clobber" {
			pl.Local = (r + 1 + rng.Intn(p.N)) % p.N
			if a := pickByRelation(rng, h, r, "remote-ahead"); a >= 0 && (rng.Intn(2) == 0 || p.TagRel == "clobber") {
				pl.Local = a // the existing tag sits on an ancestor: a fast-forward test alone would let it through
			}
			if pl.Local == r {
				pl.Relation = "equal"
			}
		}
		if pl.Relation == "equal" {
			pl.Local = r
		}
		w.plans = append(w.plans, pl)
	}
	if p.Tags && p.Tags2 {
		r := rng.Intn(p.N)
		if p.TagSrc == "head" && !strings.HasPrefix(w.plans[0].Name, "tag:") {
			r = w.plans[0].Remote
		}
		pl := branchPlan{Name: "tag:zeta9", Relation: "new", Remote: r, Local: -1}
		if rng.Intn(4) == 0 {
			pl.Relation, pl.Local = "equal", r
		}
		w.plans = append(w.plans, pl)
	}
	// remote repository: memory stores behind the reference server
	w.remoteDB = mon.NewMemStore()
	rrs, rsdb, err := mon.NewMemRefStore()
	if err != nil {
		return nil, err
	}
	w.remoteRS = rrs
	w.cleanup = append(w.cleanup, func() { rsdb.Close() })
	// local repository: a real directory (badger + sqlite) for the CLI
	root := filepath.Join(env.Dir, "net-"+c.ID)
	os.RemoveAll(root)
	wd, err := mon.NewRepo(root)
	if err != nil {
		return nil, err
	}
	w.localDir = wd
	w.cleanup = append(w.cleanup, func() { os.RemoveAll(root) })
	lh, err := mon.OpenRepoHandle(wd)
	if err != nil {
		return nil, err
	}
	defer lh.Close()
	senderDB, senderRS := objects.Store(w.remoteDB), w.remoteRS
	recvDB, recvRS := lh.DB, lh.RS
	recvPrefix, sendPrefix := "remotes/origin/", "heads/"
	if p.Op == "push" {
		senderDB, senderRS, recvDB, recvRS = lh.DB, lh.RS, w.remoteDB, w.remoteRS
		recvPrefix = "heads/"
	}
	for _, pl := range w.plans {
		sname, rname := sendPrefix+pl.Name, recvPrefix+pl.Name
		if recvPrefix == "remotes/origin/" {
			rname = recvPrefix + trackName(pl.Name)
		}
		if strings.HasPrefix(pl.Name, "tag:") {
			sname, rname = "tags/"+pl.Name[4:], "tags/"+pl.Name[4:]
		}
		if pl.Remote >= 0 {
			if err := h.copyCommitClosure(w.all, senderDB, pl.Remote); err != nil {
				return nil, err
			}
			if err := ref.SaveRef(senderRS, sname, h.sums[pl.Remote], "setup", "s@x", "setup", "sender", nil); err != nil {
				return nil, err
			}
		}
		if pl.Local >= 0 {
			if err := h.copyCommitClosure(w.all, recvDB, pl.Local); err != nil {
				return nil, err
			}
			if err := ref.SaveRef(recvRS, rname, h.sums[pl.Local], "setup", "s@x", "setup", "receiver", nil); err != nil {
				return nil, err
			}
			if p.Op == "pull" || p.Op == "merge" {
				// the local branch of the same name sits where the tracking ref is
				ref.SaveRef(recvRS, "heads/"+pl.Name, h.sums[pl.Local], "setup", "s@x", "setup", "local branch", nil)
			}
		}
	}
	if p.Op == "merge" {
		// two local branches: b0 where the plan says the receiver is, `other` where the sender is
		pl := w.plans[0]
		if err := h.copyCommitClosure(w.all, lh.DB, pl.Remote); err != nil {
			return nil, err
		}
		ref.SaveRef(lh.RS, "heads/other", h.sums[pl.Remote], "setup", "s@x", "setup", "other", nil)
		if pl.Local >= 0 {
			ref.SaveRef(lh.RS, "heads/b0", h.sums[pl.Local], "setup", "s@x", "setup", "b0", nil)
		} else {
			ref.SaveRef(lh.RS, "heads/b0", h.sums[pl.Remote], "setup", "s@x", "setup", "b0", nil)
		}
		if p.ShallowOther && (pl.Local < 0 || !bytes.Equal(h.tables[pl.Local], h.tables[pl.Remote])) {
			for _, pre := range []string{"tbl/", "tblidx/", "tblsum/"} {
				lh.DB.Delete(append([]byte(pre), h.tables[pl.Remote]...))
			}
		}
	}
	if p.Shadow && (p.Op == "merge" || (p.Op == "pull" && len(w.plans) > 0 && w.plans[0].Local >= 0)) && len(w.plans) > 0 {
		// a branch whose name merely ends with the operated branch's name, somewhere else in the history
		si := rng.Intn(p.N)
		if err := h.copyCommitClosure(w.all, lh.DB, si); err != nil {
			return nil, err
		}
		ref.SaveRef(lh.RS, "heads/a/"+w.plans[0].Name, h.sums[si], "setup", "s@x", "setup", "shadow", nil)
	}
	if p.H2 {
		w.srv = refserver.NewTLS(w.remoteDB, w.remoteRS, p.MaxPack)
	} else {
		w.srv = refserver.New(w.remoteDB, w.remoteRS, p.MaxPack)
	}
	w.srv.OneBytePerFlush = p.Slow
	w.second = -1
	if p.TwoRemotes && len(w.plans) > 0 && w.plans[0].Remote >= 0 {
		var cands []int
		for c := range h.sums {
			if c != w.plans[0].Remote {
				cands = append(cands, c)
			}
		}
		if len(cands) > 0 {
			t := cands[rng.Intn(len(cands))]
			db2 := mon.NewMemStore()
			rs2, sdb2, err := mon.NewMemRefStore()
			if err != nil {
				return nil, err
			}
			w.cleanup = append(w.cleanup, func() { sdb2.Close() })
			if err := h.copyCommitClosure(w.all, db2, t); err != nil {
				return nil, err
			}
			ref.SaveRef(rs2, "heads/"+w.plans[0].Name, h.sums[t], "setup", "s@x", "setup", "second remote", nil)
			w.srv.Mount("/b", refserver.NewCore(db2, rs2, p.MaxPack))
			w.second = t
		}
	}
	w.cleanup = append(w.cleanup, func() { w.srv.Close() })
	return w, nil
}

// storeBytes dumps an object store.
func storeBytes(db objects.Store) map[string][]byte { return mon.SnapshotStore(db) }

// ancestorsComplete walks parents from tip in db and reports the first missing ancestor.
func ancestorsComplete(db objects.Store, tip []byte) (missing []byte, count int) {
	seen := map[string]bool{}
	stack := [][]byte{tip}
	for len(stack) > 0 {
		s := stack[len(stack)-1]
		stack = stack[:len(stack)-1]
		if seen[string(s)] {
			continue
		}
		seen[string(s)] = true
		c, err := objects.GetCommit(db, s)
		if err != nil {
			return s, len(seen)
		}
		stack = append(stack, c.Parents...)
	}
	return nil, len(seen)
}

// depthFrom returns BFS distances from the tips (graph read from the history model).
func (w *netWorld) depthFrom(tips []int) map[int]int {
	return bfsDist(w.h.parents, tips)
}

type netOutcome struct {
	out          string
	err          error
	panicText    string
	beforeRecv   map[string][]byte
	afterRecv    map[string][]byte
	beforeSend   map[string][]byte
	afterSend    map[string][]byte
	refsBefore   *refState // receiver's refs (local for fetch, remote for push)
	refsAfter    *refState
	otherBefore  *refState
	otherAfter   *refState
	serverLog    []refserver.ReqLog
	serverIssues []string
	args         []string
}

func (w *netWorld) localHandle() (*mon.RepoHandle, error) { return mon.OpenRepoHandle(w.localDir) }

// runNetOp performs the operation through the in-process CLI (or the package-level session) and snapshots everything.
func runNetOp(w *netWorld, p *netParams, args []string) *netOutcome {
	o := &netOutcome{args: args}
	lh, err := w.localHandle()
	if err != nil {
		o.err = err
		return o
	}
	localObjs, localRefs := storeBytes(lh.DB), snapRefs(lh.RS)
	lh.Close()
	remoteObjs, remoteRefs := w.remoteDB.Snapshot(), snapRefs(w.remoteRS)
	w.srv.ResetLog()
	if p.Op == "fetch-pkg" {
		lh, _ := w.localHandle()
		client, cerr := apiclient.NewClient(w.srv.URL(), logr.Discard())
		if cerr != nil {
			o.err = cerr
		} else {
			var advertised [][]byte
			m, _ := client.GetRefs(nil, []string{"txs/"})
			var names []string
			for k := range m {
				names = append(names, k)
			}
			sort.Strings(names)
			for _, k := range names {
				advertised = append(advertised, m[k])
			}
			opts := []apiclient.UploadPackOption{apiclient.WithUploadPackDepth(p.Depth)}
			if p.HavesRT > 0 {
				opts = append(opts, apiclient.WithUploadPackHavesPerRoundTrip(p.HavesRT))
			}
			o.panicText = fw.Catch(func() {
				ses, serr := apiclient.NewUploadPackSession(lh.DB, lh.RS, client, advertised, opts...)
				if serr != nil {
					if serr.Error() != "nothing wanted" {
						o.err = serr
					}
					return
				}
				_, o.err = ses.Start()
			})
			// what `wrgl fetch` would do next: point the tracking refs at the advertised commits
			if o.err == nil && o.panicText == "" {
				for _, k := range names {
					if cur, _ := ref.GetRef(lh.RS, "remotes/origin/"+strings.TrimPrefix(k, "heads/")); strings.HasPrefix(k, "heads/") && !bytes.Equal(cur, m[k]) {
						ref.SaveFetchRef(lh.RS, "remotes/origin/"+k[6:], m[k], "v", "v@x", "origin", "pkg-level fetch")
					}
				}
			}
		}
		lh.Close()
	} else {
		o.out, o.err, o.panicText = mon.Wrgl(w.localDir, nil, args...)
	}
	lh, err = w.localHandle()
	if err != nil {
		o.err = err
		return o
	}
	localObjs2, localRefs2 := storeBytes(lh.DB), snapRefs(lh.RS)
	lh.Close()
	remoteObjs2, remoteRefs2 := w.remoteDB.Snapshot(), snapRefs(w.remoteRS)
	if p.Op == "push" {
		o.beforeRecv, o.afterRecv, o.beforeSend, o.afterSend = remoteObjs, remoteObjs2, localObjs, localObjs2
		o.refsBefore, o.refsAfter, o.otherBefore, o.otherAfter = remoteRefs, remoteRefs2, localRefs, localRefs2
	} else {
		o.beforeRecv, o.afterRecv, o.beforeSend, o.afterSend = localObjs, localObjs2, remoteObjs, remoteObjs2
		o.refsBefore, o.refsAfter, o.otherBefore, o.otherAfter = localRefs, localRefs2, remoteRefs, remoteRefs2
	}
	o.serverLog = append([]refserver.ReqLog(nil), w.srv.Log...)
	o.serverIssues = append([]string(nil), w.srv.Problems...)
	return o
}

// netArgs builds the CLI invocation for the scenario.
func netArgs(w *netWorld, p *netParams) []string {
	switch p.Op {
	case "fetch":
		args := []string{"fetch", "origin"}
		if p.All {
			args = []string{"fetch", "--all"}
		} else {
			args = append(args, fetchRefspecs(w, p)...)
		}
		if p.Force == "global" {
			args = append(args, "--force")
		}
		if p.Depth > 0 {
			args = append(args, "--depth", fmt.Sprint(p.Depth))
		}
		return append(args, "--no-progress")
	case "push":
		args := []string{"push", "origin"}
		for i, pl := range w.plans {
			plus := ""
			if p.Force == "refspec" || (p.Force == "mixed" && planForced(p, i)) {
				plus = "+"
			}
			if strings.HasPrefix(pl.Name, "tag:") {
				t := pl.Name[4:]
				src := p.TagSrc
				if src == "bare" && pl.Local < 0 {
					src = "short" // a bare name has no destination when the remote does not know the tag yet
				}
				switch src {
				case "short":
					args = append(args, fmt.Sprintf("%s%s:refs/tags/%s", plus, t, t))
				case "bare":
					args = append(args, plus+t)
				case "head":
					args = append(args, fmt.Sprintf("%srefs/heads/%s:refs/tags/%s", plus, w.plans[0].Name, t))
				default:
					args = append(args, fmt.Sprintf("%srefs/tags/%s:refs/tags/%s", plus, t, t))
				}
			} else {
				args = append(args, fmt.Sprintf("%srefs/heads/%s:refs/heads/%s", plus, pl.Name, pl.Name))
			}
		}
		if p.Force == "global" {
			args = append(args, "--force")
		}
		return append(args, "--no-progress")
	case "merge":
		target := "b0"
		if p.Peel > 0 {
			target += strings.Repeat("^", p.Peel) // "the commit Peel steps below the branch": not the branch itself
		}
		args := []string{"merge", target, "other", "--no-progress", "--no-gui", "-n", "4"}
		if p.FF != "" {
			args = append(args, "--"+p.FF)
		}
		return args
	case "pull":
		pl := w.plans[0]
		plus := ""
		if p.Force == "refspec" {
			plus = "+" // the tracking ref may be reset; the local branch is still merged into
		}
		args := []string{"pull", pl.Name, "origin", plus + "refs/heads/" + pl.Name + ":refs/remotes/origin/" + trackName(pl.Name), "--no-progress", "--no-gui", "-n", "4"}
		if p.FF != "" {
			args = append(args, "--"+p.FF)
		}
		if p.Depth > 0 {
			args = append(args, "--depth", fmt.Sprint(p.Depth))
		}
		return args
	}
	return nil
}

// fetchRefspecs lists the refspecs of a fetch scenario (given on the command line, or stored in the remote's
// configuration for --all).
func fetchRefspecs(w *netWorld, p *netParams) []string {
	var specs []string
	plus := ""
	if p.Force == "refspec" {
		plus = "+"
	}
	switch {
	case p.Collide:
		specs = append(specs, "+refs/heads/*:refs/backup/*", "+refs/tags/*:refs/backup/*")
	case p.Narrow:
		specs = append(specs, fmt.Sprintf("%srefs/heads/%s:refs/remotes/origin/%s", plus, w.plans[0].Name, w.plans[0].Name))
	case p.Force == "mixed":
		// one refspec per branch; only some carry '+' (see planForced)
		for i, pl := range w.plans {
			pp := ""
			if planForced(p, i) {
				pp = "+"
			}
			if strings.HasPrefix(pl.Name, "tag:") {
				specs = append(specs, fmt.Sprintf("%srefs/tags/%s:refs/tags/%s", pp, pl.Name[4:], pl.Name[4:]))
			} else {
				specs = append(specs, fmt.Sprintf("%srefs/heads/%s:refs/remotes/origin/%s", pp, pl.Name, pl.Name))
			}
		}
	default:
		specs = append(specs, plus+"refs/heads/*:refs/remotes/origin/*")
		if p.Tags {
			specs = append(specs, plus+"refs/tags/*:refs/tags/*")
		}
	}
	return specs
}

// setupFetchConfig stores the scenario's refspecs as the remote's fetch configuration (for `wrgl fetch --all`).
func setupFetchConfig(w *netWorld, p *netParams) error {
	for i, sp := range fetchRefspecs(w, p) {
		verb := "add"
		if i == 0 {
			verb = "replace-all"
		}
		if out, err, pn := mon.Wrgl(w.localDir, nil, "config", verb, "remote.origin.fetch", sp); err != nil || pn != "" {
			return fmt.Errorf("config %s: %v %s %s", verb, err, pn, out)
		}
	}
	return nil
}

// planForced says whether the i-th plan's refspec carries '+' under Force == "mixed": even positions do.
func planForced(p *netParams, i int) bool {
	switch p.Force {
	case "global", "refspec":
		return true
	case "mixed":
		return i%2 == 0
	}
	return false
}

func setupRemoteConfig(w *netWorld, p *netParams) error {
	_, err, pn := mon.Wrgl(w.localDir, nil, "remote", "add", "origin", w.srv.URL())
	if err != nil || pn != "" {
		return fmt.Errorf("remote add: %v %s", err, pn)
	}
	if w.second >= 0 {
		if _, err, pn := mon.Wrgl(w.localDir, nil, "remote", "add", "second", w.srv.URL()+"/b"); err != nil || pn != "" {
			return fmt.Errorf("remote add second: %v %s", err, pn)
		}
	}
	if p.All {
		return setupFetchConfig(w, p)
	}
	return nil
}

var _ = bytes.Equal
var _ = errors.Is
var _ = io.EOF

// trackName is the name a branch is tracked under locally: a dot is not allowed in the names wrgl resolves.
func trackName(branch string) string { return strings.ReplaceAll(branch, ".", "-") }
