package props

import (
	"bytes"
	"fmt"
	"github.com/wrgl/wrgl/pkg/objects"
	"github.com/wrgl/wrgl/pkg/ref"
	"strings"

	"github.com/wrgl/wrgl/pkg/verifhook"

	"verif/fw"
	"verif/mon"
)

// C09 — after fetch or push the receiver holds the full history of every updated ref.

func netClass(p *netParams) string {
	d := "depth=0"
	if p.Depth > 0 {
		d = "depth>0"
	}
	return p.Op + "/" + d
}

func c09Run(c *fw.Case, env *fw.Env) *fw.Obs {
	o := fw.NewObs(c)
	var p netParams
	c.P(&p)
	rng := c.Rand()
	w, err := buildNet(c, env, &p, rng)
	if err != nil {
		o.Status = "inconclusive"
		o.Note = "setup: " + err.Error()
		if w != nil {
			w.close()
		}
		return o
	}
	defer w.close()
	if err := setupRemoteConfig(w, &p); err != nil {
		o.Status = "inconclusive"
		o.Note = err.Error()
		return o
	}
	class := netClass(&p)
	args := netArgs(w, &p)
	if p.Pre == "shallow-fetch" && p.Op == "fetch" && len(w.plans) > 0 && w.plans[0].Remote >= 0 {
		// the branch was fetched before, shallowly, when it stood at an ancestor of where it stands now
		pl := w.plans[0]
		mid := pickByRelation(rng, w.h, pl.Remote, "remote-ahead")
		if p.PreMid > 0 {
			mid = p.PreMid
		}
		if mid >= 0 && pl.Local < 0 {
			ref.SaveRef(w.remoteRS, "heads/"+pl.Name, w.h.sums[mid], "setup", "s@x", "setup", "earlier position", nil)
			pre := []string{"fetch", "origin", "refs/heads/" + pl.Name + ":refs/remotes/origin/" + pl.Name, "--depth", "1", "--no-progress"}
			if out, err, pn := mon.Wrgl(w.localDir, nil, pre...); err != nil || pn != "" {
				o.Status = "inconclusive"
				o.Note = fmt.Sprintf("preparatory shallow fetch: %v %s %s", err, pn, tailStr(out, 300))
				return o
			}
			ref.SaveRef(w.remoteRS, "heads/"+pl.Name, w.h.sums[pl.Remote], "setup", "s@x", "setup", "current position", nil)
			if p.PreOld && len(w.h.parents[mid]) > 0 {
				// a branch on the parent of the earlier position: that commit is here already, without its table
				ref.SaveRef(w.remoteRS, "heads/old", w.h.sums[w.h.parents[mid][0]], "setup", "s@x", "setup", "old branch", nil)
				class += "/ref-on-shallow-commit"
			}
			if p.PreOldTag && len(w.h.parents[mid]) > 0 {
				// a tag there that no refspec names: fetch follows tags whose commit it finds locally
				ref.SaveRef(w.remoteRS, "tags/oldtag", w.h.sums[w.h.parents[mid][0]], "setup", "s@x", "setup", "old tag", nil)
				class += "/tag-on-shallow-commit"
			}
			o.Ev("fetches_after_an_earlier_shallow_fetch", 1)
			class += "/after-shallow-fetch"
		}
	}
	if p.Collide && p.Op == "fetch" && len(w.plans) > 0 && w.plans[0].Remote >= 0 {
		// the remote has a tag named like the branch, on a commit the branch does not reach; the configuration sends
		// both to one destination. Which of the two wins is wrgl's business - whichever it stores must be complete.
		pl := w.plans[0]
		var cands []int
		for c := range w.h.sums {
			if !w.h.anc[pl.Remote][c] {
				cands = append(cands, c)
			}
		}
		if len(cands) > 0 {
			t := cands[rng.Intn(len(cands))]
			if err := w.h.copyCommitClosure(w.all, w.remoteDB, t); err == nil {
				ref.SaveRef(w.remoteRS, "tags/"+pl.Name, w.h.sums[t], "setup", "s@x", "setup", "tag named like the branch", nil)
				class += "/two-sources-one-destination"
				o.Ev("fetches_with_colliding_destinations", 1)
			}
		}
	}
	if p.OtherTrack && p.Op == "push" {
		// what another remote has is no evidence of what this one has
		if lh, err := w.localHandle(); err == nil {
			n := 0
			for _, pl := range w.plans {
				if pl.Remote < 0 {
					continue
				}
				if a := pickByRelation(rng, w.h, pl.Remote, "remote-ahead"); a >= 0 && objects.CommitExist(lh.DB, w.h.sums[a]) {
					ref.SaveRef(lh.RS, "remotes/upstream/"+strings.TrimPrefix(pl.Name, "tag:"), w.h.sums[a], "setup", "s@x", "setup", "fetched from elsewhere", nil)
					n++
				}
			}
			lh.Close()
			if n > 0 {
				class += "/tracking-refs-of-another-remote"
				o.Ev("pushes_with_tracking_refs_of_another_remote", 1)
			}
		}
	}
	if p.ShallowLocal > 0 && p.Op == "push" {
		// a shallow clone: some commits below the tips have no table locally
		if lh, err := w.localHandle(); err == nil {
			tips := map[int]bool{}
			for _, pl := range w.plans {
				tips[pl.Remote] = true
			}
			removed := 0
			for i := range w.h.sums {
				if removed < p.ShallowLocal && !tips[i] && objects.CommitExist(lh.DB, w.h.sums[i]) && rng.Intn(2) == 0 {
					isTipTable := false
					for t := range tips {
						if t >= 0 && bytes.Equal(w.h.tables[t], w.h.tables[i]) {
							isTipTable = true
						}
					}
					if isTipTable {
						continue
					}
					for _, pre := range []string{"tbl/", "tblidx/", "tblsum/"} {
						lh.DB.Delete(append([]byte(pre), w.h.tables[i]...))
					}
					removed++
				}
			}
			lh.Close()
			if removed > 0 {
				o.Ev("pushes_from_a_shallow_clone", 1)
				class += "/shallow-clone"
			}
		}
	}
	if p.FailAt > 0 {
		// a first attempt is interrupted by a failing store write on the receiving side; the attempt judged below is
		// the one the user runs next
		if p.Op == "push" {
			w.remoteDB.FailAt = w.remoteDB.Writes + int64(p.FailAt)
			if p.FailFrom {
				w.remoteDB.FailAt, w.remoteDB.StopAt = 0, w.remoteDB.Writes+int64(p.FailAt)
			}
		} else if p.FailFrom {
			verifhook.SetFailFrom(int64(p.FailAt))
		} else {
			verifhook.SetFailAt(int64(p.FailAt))
		}
		first := runNetOp(w, &p, args)
		verifhook.SetFailAt(0)
		verifhook.SetFailFrom(0)
		w.remoteDB.FailAt, w.remoteDB.StopAt = 0, 0
		o.Ev("first_attempts_with_injected_failure", 1)
		if first.panicText != "" && !(strings.HasSuffix(class, "/shallow-clone") && strings.Contains(first.panicText, "no remote found for table")) {
			o.Violate("panic/"+class+"/store-error", "%v: %s", args, first.panicText)
			return o
		}
		if first.err != nil {
			o.Ev("first_attempts_interrupted", 1)
			class += "/retry"
		}
	}
	var out *netOutcome
	if p.AbortAt > 0 {
		// the server cuts one packfile of the exchange. Over HTTP/2 that is a stream reset, which `wrgl fetch` answers by
		// starting the exchange again on its own: if the command reports success it is judged like any other; if it
		// fails (HTTP/1.1: dropped connection) the attempt judged is the one the user runs next
		w.srv.Arm(p.AbortAt)
		first := runNetOp(w, &p, args)
		fired := w.srv.Aborted > 0
		w.srv.Arm(0)
		if fired {
			o.Ev("exchanges_with_a_packfile_cut_by_the_server", 1)
			if p.H2 {
				o.Ev("h2_stream_resets", 1)
			}
		}
		refusedShallow := first.panicText != "" && strings.HasSuffix(class, "/shallow-clone") && strings.Contains(first.panicText, "no remote found for table")
		if first.panicText != "" && !refusedShallow {
			o.Violate("panic/"+class+"/transport-error", "%v: %s", args, first.panicText)
			return o
		}
		if refusedShallow {
			// a push from a shallow clone is refused - by a panic, Corrections 20 - before anything is sent; the judged
			// attempt below meets the same refusal
		} else if first.err != nil {
			o.Ev("first_attempts_interrupted", 1)
			class += "/retry"
		} else {
			out = first
			if fired {
				o.Ev("commands_that_succeeded_over_a_cut_packfile", 1)
				class += "/survived-reset"
			}
		}
	}
	if p.H2 {
		o.Ev("exchanges_over_h2", 1)
	}
	if out == nil {
		out = runNetOp(w, &p, args)
	}
	o.Ev("oracle_evaluations", 1)
	o.Ev("exchanges_"+p.Op, 1)
	var rel []string
	for _, pl := range w.plans {
		rel = append(rel, pl.Name+":"+pl.Relation)
		o.Set("relations", pl.Relation)
	}
	o.Sample = map[string]interface{}{"op": p.Op, "commits": p.N, "plans": rel, "depth": p.Depth, "force": p.Force, "max_pack": p.MaxPack, "haves_per_round_trip": p.HavesRT, "args": args, "output": tailStr(out.out, 400), "error": fmt.Sprint(out.err)}
	if out.panicText != "" && strings.HasSuffix(class, "/shallow-clone") && strings.Contains(out.panicText, "no remote found for table") {
		// wrgl refuses to push commits whose tables it does not have; when it cannot name the remote they came from, the
		// refusal takes the form of a panic (noted in DESIGN, outside the statement): the push did not succeed, so the
		// receiver must be untouched
		o.Ev("shallow_pushes_refused_by_panic", 1)
		if len(out.afterRecv) != len(out.beforeRecv) {
			o.Violate("refused-push-left-objects/"+class, "the push was refused but the receiver went from %d to %d objects", len(out.beforeRecv), len(out.afterRecv))
		}
		for name, v := range out.refsAfter.vals {
			if out.refsBefore.vals[name] != v {
				o.Violate("refused-push-moved-ref/"+class, "the push was refused but ref %s moved", name)
			}
		}
		return o
	}
	if out.panicText != "" {
		o.Violate("panic/"+class, "%v: %s", args, out.panicText)
		return o
	}
	// an exchange in which every update is acceptable must not fail
	acceptable := p.FailAt == 0 && p.ShallowLocal == 0 && !strings.HasSuffix(class, "/survived-reset")
	for i, pl := range w.plans {
		switch pl.Relation {
		case "new", "equal", "remote-ahead":
			if strings.HasPrefix(pl.Name, "tag:") && pl.Relation == "remote-ahead" && !planForced(&p, i) {
				acceptable = false
			}
		default:
			if !planForced(&p, i) {
				acceptable = false
			}
		}
	}
	if acceptable && out.err != nil && p.Op != "pull" {
		o.Violate("exchange-failed/"+class, "every update of this %s is acceptable (relations %v) yet the command failed: %v; output %s", p.Op, rel, out.err, tailStr(out.out, 400))
		return o
	}
	packs, objs, rounds := 0, 0, 0
	for _, l := range out.serverLog {
		switch l.Kind {
		case "upload-pack-out", "receive-pack-in":
			packs++
			objs += l.Objects
		case "upload-json":
			rounds++
		}
		if l.Status >= 400 {
			o.Ev("server_4xx", 1)
		}
	}
	o.Ev("packfiles", int64(packs))
	o.Ev("objects_transferred", int64(objs))
	o.Ev("negotiation_requests", int64(rounds))
	if packs > 1 {
		o.Ev("multi_packfile_exchanges", 1)
	}
	// which receiver refs were created or moved
	type moved struct{ name, old, new string }
	var changed []moved
	for name, v := range out.refsAfter.vals {
		if old := out.refsBefore.vals[name]; old != v {
			changed = append(changed, moved{name, old, v})
		}
	}
	o.Ev("refs_updated", int64(len(changed)))
	recvDB := mon.FromSnapshot(out.afterRecv)
	// the commit a ref was created at or moved to is within any depth: its table must be there, also when the commit
	// itself was already present (left shallow by an earlier fetch)
	for _, m := range changed {
		if i, ok := w.h.index[m.new]; ok && out.err == nil {
			if _, ok := out.afterRecv["tbl/"+string(w.h.tables[i])]; !ok {
				o.Violate("tip-table-missing/"+class, "ref %s was created at / moved to commit %d whose table is not in the receiving repository (%v)", m.name, i, args)
				return o
			}
		}
	}
	for _, m := range changed {
		if missing, _ := ancestorsComplete(recvDB, []byte(m.new)); missing != nil {
			o.Violate("ancestor-missing/"+class, "ref %s now points at %x but its ancestor %x is not in the receiving repository (%v)", m.name, m.new, missing, args)
			return o
		}
	}
	// tables of newly received commits within depth
	var tips []int
	for _, m := range changed {
		if i, ok := w.h.index[m.new]; ok {
			if _, had := out.beforeRecv["com/"+m.new]; !had {
				tips = append(tips, i)
			}
		}
	}
	dist := w.depthFrom(tips)
	for i, d := range dist {
		key := "com/" + string(w.h.sums[i])
		if _, had := out.beforeRecv[key]; had {
			continue
		}
		if _, has := out.afterRecv[key]; !has {
			continue // not needed: under a common commit
		}
		if p.Depth == 0 || d < p.Depth {
			if _, ok := out.afterRecv["tbl/"+string(w.h.tables[i])]; !ok {
				o.Violate("table-missing-within-depth/"+class, "commit %d (distance %d from a fetched tip, depth %d) was received without its table (%v)", i, d, p.Depth, args)
				return o
			}
			if _, issues := mon.CheckTable(recvDB, w.h.tables[i], mon.CheckOpts{}); len(issues) > 0 {
				o.Violate("structure/"+issues[0].Clause+"/received-table/"+class, "table of commit %d: %s", i, issues[0].Detail)
				return o
			}
			o.Ev("received_tables_checked", 1)
		}
	}
	// what was complete before is still there, unchanged
	for k, v := range out.beforeRecv {
		if strings.HasPrefix(k, "tblsum/") || strings.HasPrefix(k, "tblidx/") || strings.HasPrefix(k, "blkidx/") {
			if _, ok := out.afterRecv[k]; !ok {
				o.Violate("existing-object-removed/"+class, "object %s… existed before the %s and is gone", k[:6], p.Op)
				return o
			}
			continue
		}
		if !bytes.Equal(out.afterRecv[k], v) {
			o.Violate("existing-object-changed/"+class, "object %s… changed during the %s", k[:6], p.Op)
			return o
		}
	}
	// identical objects on both sides
	for k, v := range out.afterRecv {
		if strings.HasPrefix(k, "tblsum/") {
			continue
		}
		if sv, ok := out.afterSend[k]; ok && !bytes.Equal(sv, v) {
			o.Violate("object-differs-between-sides/"+class, "object %s… has different bytes on the two sides", k[:6])
			return o
		}
	}
	// the sending side is not modified
	if len(out.afterSend) != len(out.beforeSend) {
		o.Violate("sender-modified/"+class, "the sending repository went from %d to %d objects", len(out.beforeSend), len(out.afterSend))
	}
	for name, v := range out.otherAfter.vals {
		if out.otherBefore.vals[name] != v && p.Op != "pull" {
			o.Violate("sender-ref-changed/"+class, "ref %s on the sending side changed", name)
		}
	}
	if w.second >= 0 && out.err == nil {
		// two remotes on one host: each tracking ref stands where its own remote's branch stands
		o.Ev("fetches_from_two_remotes_on_one_host", 1)
		pl := w.plans[0]
		for _, x := range []struct {
			remote string
			at     int
		}{{"origin", pl.Remote}, {"second", w.second}} {
			name := "remotes/" + x.remote + "/" + pl.Name
			if got := out.refsAfter.vals[name]; got != string(w.h.sums[x.at]) {
				o.Violate("tracking-ref-not-at-its-remotes-value/"+class, "%s is at %x; the branch stands at %x on that remote (%v)", name, got, w.h.sums[x.at], args)
			}
		}
	}
	// an immediately repeated exchange transfers nothing and changes nothing
	if out.err == nil && p.Op != "pull" && !strings.HasSuffix(class, "/two-sources-one-destination") {
		// (with two sources for one destination the configuration itself is ambiguous: a repeat may pick the other one)
		again := runNetOp(w, &p, args)
		o.Ev("repeat_exchanges", 1)
		if again.panicText != "" || again.err != nil {
			o.Violate("repeat-fails/"+class, "the same command run again: %v %s", again.err, again.panicText)
			return o
		}
		for _, l := range again.serverLog {
			if (l.Kind == "upload-json" && l.Wants > 0) || l.Kind == "upload-pack-out" || l.Kind == "receive-pack-in" {
				o.Violate("repeat-transfers-objects/"+class, "the repeated %s sent a %s request (wants %d, objects %d)", p.Op, l.Kind, l.Wants, l.Objects)
				return o
			}
		}
		if len(again.afterRecv) != len(again.beforeRecv) {
			o.Violate("repeat-stores-objects/"+class, "the repeated %s stored %d new objects", p.Op, len(again.afterRecv)-len(again.beforeRecv))
		}
		for name, v := range again.refsAfter.vals {
			if again.refsBefore.vals[name] != v || len(again.refsAfter.logs[name]) != len(again.refsBefore.logs[name]) {
				o.Violate("repeat-changes-refs/"+class, "the repeated %s changed ref %s or its log", p.Op, name)
				break
			}
		}
	}
	// the tables an earlier shallow fetch left out can be fetched on their own: `wrgl fetch tables REMOTE SUM...`
	if strings.HasSuffix(class, "/after-shallow-fetch") && out.err == nil && len(o.Viols) == 0 {
		var missing [][]byte
		seenT := map[string]bool{}
		for i, cs := range w.h.sums {
			if _, ok := out.afterRecv["com/"+string(cs)]; !ok {
				continue
			}
			t := string(w.h.tables[i])
			if _, ok := out.afterRecv["tbl/"+t]; !ok && !seenT[t] {
				seenT[t] = true
				missing = append(missing, w.h.tables[i])
			}
		}
		if len(missing) > 0 {
			targs := []string{"fetch", "tables", "origin"}
			for _, t := range missing {
				targs = append(targs, fmt.Sprintf("%x", t))
			}
			tout, terr, tpn := mon.Wrgl(w.localDir, nil, append(targs, "--no-progress")...)
			o.Ev("fetch_tables_commands", 1)
			if tpn != "" {
				o.Violate("panic/fetch-tables", "%v: %s", targs, tpn)
				return o
			}
			if terr != nil {
				o.Violate("fetch-tables-failed/"+class, "%v: %v %s", targs, terr, tailStr(tout, 300))
				return o
			}
			if lh, err := w.localHandle(); err == nil {
				for _, t := range missing {
					if _, issues := mon.CheckTable(lh.DB, t, mon.CheckOpts{}); len(issues) > 0 {
						o.Violate("fetch-tables-incomplete/"+issues[0].Clause+"/"+class, "`wrgl fetch tables` reported success for table %x but: %s", t, issues[0].Detail)
						break
					}
					o.Ev("tables_fetched_on_their_own", 1)
				}
				lh.Close()
			}
		}
	}
	if out.err == nil && len(out.serverIssues) > 0 {
		o.Status = "inconclusive"
		o.Note = "reference server self-check: " + strings.Join(out.serverIssues, "; ")
	}
	if len(changed) > 0 {
		o.Key("%s/pack%s/h%d/n%d/%d", class, packClass(p.MaxPack), p.HavesRT, p.N, c.Seed%100000)
	}
	return o
}

func init() {
	fw.Register(&fw.Property{
		ID:          "C09",
		Level:       "exploration",
		Rule:        "a seeded history (commit DAG with shared blocks, two roots) is split into a remote repository (memory stores behind an in-process reference HTTP server built from wrgl's own finder/sender/receiver) and a local repository (real badger+sqlite directory); per branch the receiver's ref stands in a seeded relation to the sender's (equal, ahead, behind, diverged, unrelated, new; optional tag); driven through the real `wrgl fetch` / `wrgl push` / `wrgl pull` in-process with refspecs, --depth {0,1,2}, --force / '+' refspecs, max packfile size {1 B, 1 KiB, default}, and through UploadPackSession directly with haves-per-round-trip {1,2,256}; a quarter of the exchanges (and 48 fixed ones) are preceded by an attempt in which one receiver-side store write (or every write from it on) fails, some fetches name one branch of a remote that has more branches and an off-branch tag, some follow an earlier --depth 1 fetch of an older position (incl. tips that revert to a shallow commit's table), some pushes come from a shallow clone (must be refused), the remote may put a branch on a commit left shallow (its table must arrive), `wrgl fetch tables` must complete what a shallow fetch left out, the remote may put a tag no refspec names on a shallow commit, a depth fetch may follow a depth fetch, two refspecs may send a branch and a same-named tag to one destination, a first push may come from a repository that tracks another remote, `fetch --all` may address two remotes that differ only in the path of their URL (each tracking ref must stand at its own remote's value), and JSON answers trickle byte by byte in the slow cases; oracle over key->bytes snapshots of both sides before/after and the server's request log: every created/moved ref has all ancestors, every newly received commit within depth has a table that passes the structural monitor, nothing that existed changed, shared objects are byte-identical, the sender is untouched, and an immediately repeated exchange sends no wants, stores nothing and changes no ref or reflog; distinct_nontrivial = distinct exchanges that updated at least one ref",
		Assumptions: []string{"the reference server (harness/refserver, ~350 lines) is trusted harness logic; it self-checks session termination", "authentication, retries and the real wrgld server are not exercised"},
		Workers:     8,
		Gen: func(tier string, seed int64) []fw.Case {
			l := fw.NewCaseList("C09", tier, seed)
			rng := l.Rng()
			packs := []uint64{1, 1024, 0, 0}
			// fixed: histories in which a commit is reachable from the tip by paths of different length, fetched with
			// a depth that lies between the two (the table must be selected by the shortest distance)
			diamonds := [][][]int{
				{{}, {0}, {1}, {1}, {3}, {2, 4}}, // root<-c<-a , c<-d<-b , m=(a,b)
				{{}, {0}, {1}, {1}, {3}, {4, 2}}, // same, parents listed the other way round
				{{}, {0}, {0}, {2}, {3}, {1, 4}},
				{{}, {0}, {1}, {2}, {1}, {3, 4}, {5, 1}},
			}
			for i, sh := range diamonds {
				for _, d := range []int{1, 2, 3} {
					for _, op := range []string{"fetch", "fetch-pkg"} {
						l.Add(op, netParams{Op: op, BaseRows: 4, Depth: d, Shape: sh, HavesRT: 256}, int64(2000+i*10+d))
					}
				}
			}
			// fixed: a single-branch fetch from a remote that also has other branches and a tag off that branch
			for i := 0; i < 6; i++ {
				l.Add("fetch", netParams{Op: "fetch", N: 8, BaseRows: 4, Branches: 3, Tags: true, Narrow: true, Depth: []int{0, 0, 1}[i%3]}, int64(2100+i))
			}
			// fixed: first attempt cut short at an early / late receiver write, then the judged attempt
			for i, k := range []int{2, 3, 4, 5, 6, 7, 8, 9, 10, 11, 12, 13, 14, 15, 16, 17, 18, 19, 20, 21, 23, 25, 27, 30} {
				l.Add("fetch", netParams{Op: "fetch", N: 5, BaseRows: 300, Branches: 1, Rel: "new", FailAt: k, FailFrom: i%2 == 0}, int64(2200+i))
				l.Add("push", netParams{Op: "push", N: 5, BaseRows: 300, Branches: 1, Rel: "new", FailAt: k, FailFrom: i%2 == 1}, int64(2300+i))
			}
			// fixed: a branch fetched shallowly at an earlier position, then fetched again in full after it moved on
			for i := 0; i < 10; i++ {
				l.Add("fetch", netParams{Op: "fetch", N: 8 + i%5, BaseRows: 4, Branches: 1, Rel: "new", Pre: "shallow-fetch"}, int64(2400+i))
			}
			// ... where the new tip reverts to the table of a commit the earlier fetch left shallow
			chain := func(n int) [][]int {
				sh := [][]int{{}}
				for i := 1; i < n; i++ {
					sh = append(sh, []int{i - 1})
				}
				return sh
			}
			for i := 0; i < 12; i++ {
				n := 5 + i%4
				mid := 2 + i%(n-3)
				l.Add("fetch", netParams{Op: "fetch", BaseRows: []int{4, 300}[i%2], Shape: chain(n), RevertTo: map[int]int{n - 1: i % mid}, Pre: "shallow-fetch", PreMid: mid, HavesRT: 256}, int64(2450+i))
				if i%2 == 0 {
					l.Add("fetch", netParams{Op: "fetch", BaseRows: 4, Shape: chain(n), Pre: "shallow-fetch", PreMid: mid, PreOld: true, HavesRT: 256}, int64(2470+i))
					l.Add("fetch", netParams{Op: "fetch", BaseRows: 4, Shape: chain(n), Pre: "shallow-fetch", PreMid: mid, PreOld: true, Depth: 1 + i/2%2, HavesRT: 256}, int64(2490+i))
				} else {
					l.Add("fetch", netParams{Op: "fetch", BaseRows: 4, Shape: chain(n), Pre: "shallow-fetch", PreMid: mid, PreOldTag: true, Depth: i / 2 % 2, HavesRT: 256}, int64(2510+i))
				}
			}
			for i := 0; i < 6; i++ {
				l.Add("push", netParams{Op: "push", N: 7 + i%4, BaseRows: 4, Branches: 1, Rel: "new", ShallowLocal: 1 + i%2}, int64(2500+i))
			}
			// fixed: first push to a remote that has no ref yet, from a repository that tracks another remote
			for i := 0; i < 8; i++ {
				l.Add("push", netParams{Op: "push", N: 6 + i%5, BaseRows: 4, Branches: 1 + i%2, Rel: "new", OtherTrack: true, MaxPack: packs[i%len(packs)]}, int64(2550+i))
			}
			// fixed: fetch --all from two remotes that differ only in the path of their URL
			for i := 0; i < 8; i++ {
				l.Add("fetch", netParams{Op: "fetch", N: 6 + i%5, BaseRows: 4, Branches: 1, Rel: []string{"new", "remote-ahead"}[i%2], All: true, TwoRemotes: true, Force: "refspec"}, int64(2570+i))
			}
			// fixed: a branch and a tag of the same name sent to one destination by two refspecs
			for i := 0; i < 8; i++ {
				l.Add("fetch", netParams{Op: "fetch", N: 6 + i%5, BaseRows: 4, Branches: 1 + i%2, Rel: "new", Collide: true, Depth: []int{0, 0, 0, 1}[i%4]}, int64(2530+i))
			}
			// fixed: the server cuts the k-th packfile of the exchange, over HTTP/2 (stream reset: fetch and pull restart
			// the exchange themselves) and over HTTP/1.1 (dropped connection: the command fails and is run again)
			for i := 0; i < 24; i++ {
				op := []string{"fetch", "fetch", "push", "pull"}[i%4]
				l.Add(op, netParams{Op: op, N: 5 + i%3, BaseRows: []int{300, 30}[i/4%2], Branches: 1, Rel: "new", H2: i%8 < 6, AbortAt: 1 + i/8 + i%2,
					MaxPack: []uint64{1024, 0, 1}[i%3], Depth: []int{0, 0, 0, 1}[i/4%4]}, int64(2600+i))
			}
			for i := 0; i < l.N(60, 4000); i++ {
				p := netParams{N: 3 + rng.Intn(10), BaseRows: []int{4, 30, 300}[rng.Intn(3)], Branches: 1 + rng.Intn(3), MaxPack: packs[rng.Intn(len(packs))], Tags: rng.Intn(3) == 0}
				switch rng.Intn(10) {
				case 0, 1, 2, 3:
					p.Op = "fetch"
					p.Depth = []int{0, 0, 1, 2}[rng.Intn(4)]
				case 4, 5, 6:
					p.Op = "push"
				case 7:
					p.Op = "pull"
					p.Tags = false
				default:
					p.Op = "fetch-pkg"
					p.HavesRT = []int{1, 2, 256}[rng.Intn(3)]
					p.Depth = []int{0, 0, 1}[rng.Intn(3)]
					p.Tags = false
				}
				p.Force = []string{"", "", "global", "refspec"}[rng.Intn(4)]
				if p.Op == "fetch" && rng.Intn(4) == 0 {
					// only the first branch is asked for; the remote's other branches and its tag must not leak in
					p.Narrow, p.Tags, p.Branches = true, true, 2+rng.Intn(2)
				}
				if p.Op != "pull" && rng.Intn(4) == 0 {
					p.FailAt, p.FailFrom = 1+rng.Intn(40), rng.Intn(2) == 0
				}
				if p.Op == "push" && rng.Intn(5) == 0 {
					p.ShallowLocal = 1 + rng.Intn(2)
				}
				if i%12 == 0 && (p.Op == "fetch" || p.Op == "push") {
					p.Slow = true
					p.BaseRows = 4
				}
				if p.Op != "fetch-pkg" && i%5 == 3 {
					p.H2 = true
				}
				if p.Op != "fetch-pkg" && p.FailAt == 0 && i%7 == 5 {
					p.AbortAt = 1 + rng.Intn(5)
				}
				l.Add(p.Op, p, 0)
			}
			return l.Cases
		},
		CaseTimeoutS: 900,
		Run:          c09Run,
	})
}
