package props

import (
	"bytes"
	"context"
	"fmt"
	"io"
	"os"
	"sort"
	"strings"
	"time"

	"github.com/wrgl/wrgl/pkg/objects"
	"github.com/wrgl/wrgl/pkg/sorter"

	"verif/fw"
	"verif/gen"
)

// C19 — external sort emits every distinct key once, in key order, at any memory limit.

type c19Params struct {
	Rows     int        `json:"rows"`
	NCols    int        `json:"ncols"`
	PK       []int      `json:"pk"`
	Removed  []int      `json:"removed"`
	Chunks   string     `json:"chunks"` // none | one | two | five | every
	Style    int        `json:"style"`
	Dup      float64    `json:"dup"`
	EmptyKey bool       `json:"empty_key"`
	Fixed    *gen.Table `json:"fixed,omitempty"`
	ViaFile  bool       `json:"via_file,omitempty"` // rows enter through Sorter.SortFile (the CSV route) instead of AddRow
	// SpillFault > 0: while rows SpillFault..SpillFault+3 are added the spill directory does not exist; AddRow's error is
	// ignored (as ReingestTable does) and the outputs must still hold every row
	SpillFault int `json:"spill_fault,omitempty"`
	// Ragged: rows keep only their first w cells, w between the last key column and the full width, differently per row
	// (what the merge collector feeds its sorter when a branch only appended columns: untouched rows keep the base width)
	Ragged bool `json:"ragged,omitempty"`
	// Reuse > 0: the sorter has been used before for another, wider table of Reuse rows (which spilled under the same run
	// size) and was Reset, as the doctor's resolver does between tables; 2 = that table's rows were also read out first
	Reuse     int  `json:"reuse,omitempty"`
	ReuseRead bool `json:"reuse_read,omitempty"`
}

// c19Prev is the table a reused sorter held before Reset.
var c19Prev *gen.Table
var c19PrevRead bool

func toU32(a []int) []uint32 {
	r := make([]uint32, len(a))
	for i, v := range a {
		r[i] = uint32(v)
	}
	return r
}

func rowBytes(rows [][]string) uint64 {
	var n uint64
	for _, r := range rows {
		n += 4
		for _, s := range r {
			n += uint64(len(s)) + 2
		}
	}
	return n
}

func runSizeFor(chunks string, rows [][]string) uint64 {
	total := rowBytes(rows)
	switch chunks {
	case "none":
		return total + 1024
	case "one":
		return total/2 + 1 // one spill, rest in memory (or two spills)
	case "two":
		return total/3 + 1
	case "five":
		return total/6 + 1
	case "exact":
		if total == 0 {
			return 1
		}
		return total // spills exactly at the last row: nothing left in memory
	default:
		return 1 // every row spills
	}
}

func dropCols(row []string, removed map[int]struct{}) []string {
	if len(removed) == 0 {
		return row
	}
	r := make([]string, 0, len(row))
	for i, s := range row {
		if _, ok := removed[i]; ok {
			continue
		}
		r = append(r, s)
	}
	return r
}

// newPKAfterRemoval maps key indices to their positions once removed columns are dropped.
func pkAfterRemoval(pk []int, removed map[int]struct{}, ncols int) []int {
	if len(pk) == 0 {
		return nil
	}
	r := make([]int, len(pk))
	for i, p := range pk {
		shift := 0
		for c := range removed {
			if c < p {
				shift++
			}
		}
		r[i] = p - shift
	}
	return r
}

// feedSorter builds a sorter the way its two callers do: with SetColumns (which
// also attaches the profiler) as ingest does when no column is removed, and with
// the bare Columns field (no profiler) as the merge collector's sorter when
// columns are removed — a profiler built for the original columns cannot process
// rows that lost columns, and no caller combines the two.
func feedSorter(rows [][]string, cols []string, pk []int, runSize uint64, withProfiler bool, viaFile bool) (*sorter.Sorter, error) {
	s, err := sorter.NewSorter(sorter.WithRunSize(runSize))
	if err != nil {
		return nil, err
	}
	if viaFile {
		csvBytes := gen.ToCSV(&gen.Table{Cols: cols, Rows: rows}, 0)
		if err := s.SortFile(io.NopCloser(bytes.NewReader(csvBytes)), gen.ColNames(cols, pk)); err != nil {
			return nil, err
		}
		return s, nil
	}
	if c19Prev != nil {
		if withProfiler {
			s.SetColumns(c19Prev.Cols)
		} else {
			s.Columns = append([]string(nil), c19Prev.Cols...)
		}
		s.PK = toU32(pk)
		for _, r := range c19Prev.Rows {
			if err := s.AddRow(r); err != nil {
				return nil, err
			}
		}
		if c19PrevRead {
			drainRows(s, nil)
		}
		s.Reset()
	}
	if withProfiler {
		s.SetColumns(cols)
	} else {
		s.Columns = append([]string(nil), cols...)
	}
	s.PK = toU32(pk)
	for i, r := range rows {
		if c19SpillFaultAt > 0 && i >= c19SpillFaultAt && i < c19SpillFaultAt+4 {
			// for a few rows the spill directory is gone (RUNNER_TEMP is where the sorter creates its files): AddRow may
			// fail; the caller carries on, as ReingestTable and the doctor do, and no row may be lost by that
			os.Setenv("RUNNER_TEMP", "/nonexistent-spill-directory")
			err := s.AddRow(r)
			os.Unsetenv("RUNNER_TEMP")
			if err != nil {
				c19SpillFaultsSeen++
			}
			continue
		}
		if err := s.AddRow(r); err != nil {
			return nil, err
		}
	}
	return s, nil
}

// c19SpillFaultAt > 0: from that row on (four rows long) the sorter cannot create spill files.
var c19SpillFaultAt, c19SpillFaultsSeen int

func listChunks() []string {
	ents, _ := os.ReadDir(os.TempDir())
	var out []string
	for _, e := range ents {
		if strings.HasPrefix(e.Name(), "sorted_chunk_") {
			out = append(out, e.Name())
		}
	}
	sort.Strings(out)
	return out
}

type sorterOut struct {
	rows    [][]string
	offsets []int
	sizes   []int
	blockPK [][]string
	err     error
	panicS  string
}

func drainBlocks(s *sorter.Sorter, removed map[int]struct{}) (out sorterOut) {
	ctx, cancel := context.WithCancel(context.Background())
	defer cancel()
	errCh := make(chan error, 4)
	ch := s.SortedBlocks(ctx, removed, errCh)
	for b := range ch {
		_, blk, err := objects.ReadBlockFrom(bytes.NewReader(b.Block))
		if err != nil {
			out.err = fmt.Errorf("block %d undecodable: %v", b.Offset, err)
			for range ch {
			}
			return
		}
		out.rows = append(out.rows, blk...)
		out.offsets = append(out.offsets, b.Offset)
		out.sizes = append(out.sizes, len(blk))
		out.blockPK = append(out.blockPK, b.PK)
		if b.RowsCount != len(blk) {
			out.err = fmt.Errorf("block %d RowsCount=%d but holds %d rows", b.Offset, b.RowsCount, len(blk))
		}
	}
	select {
	case e := <-errCh:
		out.err = e
	default:
	}
	return
}

func drainRows(s *sorter.Sorter, removed map[int]struct{}) (out sorterOut) {
	ctx, cancel := context.WithCancel(context.Background())
	defer cancel()
	errCh := make(chan error, 4)
	ch := s.SortedRows(ctx, removed, errCh)
	for b := range ch {
		for _, r := range b.Rows {
			out.rows = append(out.rows, append([]string(nil), r...))
		}
		out.offsets = append(out.offsets, b.Offset)
		out.sizes = append(out.sizes, len(b.Rows))
	}
	select {
	case e := <-errCh:
		out.err = e
	default:
	}
	return
}

func c19Class(p *c19Params) string {
	k := "pk1"
	switch {
	case len(p.PK) == 0:
		k = "nokey"
	case len(p.PK) > 1:
		k = "composite"
	}
	rem := "norem"
	if len(p.Removed) > 0 {
		rem = "rem-after-key"
		for _, r := range p.Removed {
			for _, q := range p.PK {
				if r < q {
					rem = "rem-before-key"
				}
			}
		}
	}
	sp := "spill"
	if p.Chunks == "none" {
		sp = "nospill"
	}
	return k + "/" + sp + "/" + rem
}

func c19Run(c *fw.Case, env *fw.Env) *fw.Obs {
	o := fw.NewObs(c)
	var p c19Params
	c.P(&p)
	rng := c.Rand()
	var t *gen.Table
	if p.Fixed != nil {
		t = p.Fixed
	} else {
		t = gen.GenTable(rng, gen.Opts{Rows: p.Rows, NCols: p.NCols, Style: gen.CellStyle(p.Style), PK: p.PK, DupRate: p.Dup, EmptyKey: p.EmptyKey})
	}
	if p.ViaFile {
		// what the file says is the input (CR LF inside a cell reads back as LF; the sorter is fed the very same bytes)
		t = gen.Normalize(t)
		p.Removed = nil
	}
	if p.Ragged && len(p.PK) > 0 && !p.ViaFile {
		p.Removed = nil
		minW := 0
		for _, k := range p.PK {
			if k+1 > minW {
				minW = k + 1
			}
		}
		for i, r := range t.Rows {
			t.Rows[i] = r[:minW+rng.Intn(len(r)-minW+1)]
		}
		o.Ev("cases_with_rows_of_different_widths", 1)
	}
	c19Prev = nil
	if p.Reuse > 0 && !p.ViaFile {
		extra := 1 + rng.Intn(2)
		c19Prev = gen.GenTable(rng, gen.Opts{Rows: p.Reuse, NCols: len(t.Cols) + extra, Style: gen.CellStyle(p.Style), PK: p.PK, DupRate: p.Dup})
		c19PrevRead = p.ReuseRead
		o.Ev("cases_on_a_sorter_reset_after_another_table", 1)
	}
	defer func() { c19Prev = nil }()
	removed := map[int]struct{}{}
	for _, r := range p.Removed {
		removed[r] = struct{}{}
	}
	var remArg map[int]struct{}
	if len(removed) > 0 {
		remArg = removed
	}
	runSize := runSizeFor(p.Chunks, t.Rows)
	class := c19Class(&p)

	// expected: M(rows with removed columns dropped, key)
	exp := make([][]string, len(t.Rows))
	for i, r := range t.Rows {
		exp[i] = dropCols(r, removed)
	}
	ncolsAfter := len(t.Cols) - len(removed)
	model := gen.Model(exp, pkAfterRemoval(p.PK, removed, len(t.Cols)), ncolsAfter)

	c19SpillFaultAt, c19SpillFaultsSeen = 0, 0
	if p.SpillFault > 0 && !p.ViaFile && len(t.Rows) > p.SpillFault+4 {
		c19SpillFaultAt = p.SpillFault
	}
	defer func() {
		if c19SpillFaultsSeen > 0 {
			o.Ev("spill_creation_failures_ignored_by_the_caller", int64(c19SpillFaultsSeen))
		}
		c19SpillFaultAt = 0
	}()
	before := listChunks()
	outs := map[string]sorterOut{}
	spilled := 0
	for _, which := range []string{"SortedBlocks", "SortedRows"} {
		s, err := feedSorter(t.Rows, t.Cols, p.PK, runSize, len(removed) == 0 && !p.Ragged, p.ViaFile)
		if err != nil {
			o.Violate("sorter-error/AddRow/"+class, "AddRow: %v", err)
			return o
		}
		mid := listChunks()
		spilled = len(mid) - len(before)
		var out sorterOut
		done := make(chan struct{})
		go func() {
			defer close(done)
			defer func() {
				if r := recover(); r != nil {
					out.panicS = fmt.Sprint(r)
				}
			}()
			if which == "SortedBlocks" {
				out = drainBlocks(s, remArg)
			} else {
				out = drainRows(s, remArg)
			}
		}()
		select {
		case <-done:
		case <-time.After(120 * time.Second):
			o.Status = "inconclusive"
			o.Note = which + " did not finish in 120s"
			return o
		}
		if err := s.Close(); err != nil {
			o.Violate("close-error/Sorter.Close/"+class, "Close: %v", err)
		}
		if left := listChunks(); len(left) != len(before) {
			o.Violate("spill-file-left/Sorter.Close/"+class, "after Close the temp dir still holds %v", left)
			for _, f := range left {
				os.Remove(os.TempDir() + "/" + f)
			}
		}
		outs[which] = out
		o.Ev("oracle_evaluations", 1)
		if out.err != nil {
			o.Violate("sorter-error/"+which+"/"+class, "%s reported error: %v", which, out.err)
			continue
		}
		if cl, d := model.Compare(out.rows); cl != "" {
			o.Violate(cl+"/"+which+"/"+class, "%s (rows=%d cols=%d pk=%v removed=%v chunks=%s spilled=%d): %s", which, len(t.Rows), len(t.Cols), p.PK, p.Removed, p.Chunks, spilled, d)
		}
		for i, off := range out.offsets {
			if off != i {
				o.Violate("block-offsets/"+which+"/"+class, "%s: block #%d has offset %d", which, i, off)
				break
			}
			if (i < len(out.offsets)-1 && out.sizes[i] != 255) || out.sizes[i] < 1 || out.sizes[i] > 255 {
				o.Violate("block-size/"+which+"/"+class, "%s: block %d of %d has %d rows", which, i, len(out.offsets), out.sizes[i])
				break
			}
		}
	}
	// both outputs contain the same key sequence (same rows when keys are unique)
	a, b := outs["SortedBlocks"], outs["SortedRows"]
	if a.err == nil && b.err == nil && len(o.Viols) == 0 {
		if len(a.rows) != len(b.rows) {
			o.Violate("outputs-differ/Sorter/"+class, "SortedBlocks gave %d rows, SortedRows %d", len(a.rows), len(b.rows))
		} else {
			// "the two outputs contain the same rows": two sorters fed identically must also agree on
			// which of several rows with the same key they keep
			for i := range a.rows {
				if !strEq(a.rows[i], b.rows[i]) {
					o.Violate("outputs-differ/Sorter/"+class, "row %d: SortedBlocks kept %q, SortedRows kept %q (same key, fed identically; chunks=%s)", i, trunc(a.rows[i]), trunc(b.rows[i]), p.Chunks)
					break
				}
			}
		}
	}
	o.Ev("rows_in", int64(len(t.Rows)))
	o.Ev("dup_rows", int64(model.Dups))
	o.Max("max_chunks", int64(spilled))
	if spilled > 0 {
		o.Ev("cases_spilled", 1)
	}
	if len(t.Rows) >= 2 {
		o.Key("%s/chunks=%s/dups=%v/rows=%d/%d", class, p.Chunks, model.Dups > 0, len(t.Rows), c.Seed%10000)
	}
	o.Set("config", class+"/chunks="+p.Chunks)
	o.Sample = map[string]interface{}{"rows": len(t.Rows), "cols": len(t.Cols), "pk": p.PK, "removed": p.Removed, "chunks": p.Chunks, "spill_files": spilled, "distinct_keys": len(model.Keys), "rows_out": len(a.rows)}
	return o
}

func init() {
	fw.Register(&fw.Property{
		ID:          "C19",
		Level:       "exploration",
		Rule:        "seeded row multisets from a tiny alphabet (ties on first key component, equal keys across chunks, empty key) x key {single, composite in any order, none} x run sizes giving 0/1/2/5/one-per-row spills x removed-column sets (never a key column); two sorters fed identically, through AddRow or (a quarter of the cases) through SortFile; in some cases spill-file creation fails for four rows and the caller carries on, rows have different widths (as in a merge whose branches only appended columns), or the sorter was used for another, wider table before and Reset (as the doctor does); both outputs compared with sort+dedupe of the input minus removed columns; temp dir listed after Close; distinct_nontrivial = distinct (key shape, spill, removal, dups, rows, seed) cases with >=2 rows",
		Assumptions: []string{"removed columns are never key columns", "which duplicate survives is free"},
		Gen: func(tier string, seed int64) []fw.Case {
			l := fw.NewCaseList("C19", tier, seed)
			// fixed corpus: empty key first (#1), composite keys after a spill (#16), no-key after spill
			fixed := []c19Params{
				{PK: []int{0}, Chunks: "none", Fixed: &gen.Table{Cols: []string{"a", "b"}, Rows: [][]string{{"", "x"}, {"1", "y"}}}},
				{PK: []int{0}, Chunks: "every", Fixed: &gen.Table{Cols: []string{"a", "b"}, Rows: [][]string{{"", "x"}, {"1", "y"}}}},
				{PK: []int{0, 1}, Chunks: "every", Fixed: &gen.Table{Cols: []string{"a", "b", "c"}, Rows: [][]string{{"b", "a", "1"}, {"a", "b", "2"}, {"a", "a", "3"}, {"b", "b", "4"}}}},
				{PK: nil, Chunks: "every", Fixed: &gen.Table{Cols: []string{"a", "b"}, Rows: [][]string{{"b", "a"}, {"a", "b"}, {"a", "a"}, {"b", "b"}}}},
				{PK: []int{1, 0}, Chunks: "two", Fixed: &gen.Table{Cols: []string{"a", "b", "c"}, Rows: [][]string{{"b", "a", "1"}, {"a", "b", "2"}, {"a", "a", "3"}, {"b", "b", "4"}, {"c", "a", "5"}, {"a", "c", "6"}}}},
				{PK: []int{2}, Removed: []int{0}, Chunks: "none", Fixed: &gen.Table{Cols: []string{"a", "b", "c"}, Rows: [][]string{{"x", "q", "2"}, {"y", "q", "1"}, {"z", "r", "3"}}}},
				{PK: []int{0}, Removed: []int{1}, Chunks: "every", Fixed: &gen.Table{Cols: []string{"a", "b", "c"}, Rows: [][]string{{"2", "q", "x"}, {"1", "q", "y"}, {"3", "r", "z"}}}},
				{PK: []int{0}, Chunks: "none", Fixed: &gen.Table{Cols: []string{"a"}, Rows: nil}},
			}
			for i, f := range fixed {
				l.Add("fixed", f, int64(100+i))
			}
			rng := l.Rng()
			n := l.N(500, 40000)
			chunkModes := []string{"none", "one", "two", "five", "every", "exact"}
			for i := 0; i < n; i++ {
				p := c19Params{NCols: 1 + rng.Intn(5), Style: int(gen.CellTiny)}
				if rng.Intn(4) == 0 {
					p.Style = int(gen.CellHostile)
				}
				switch rng.Intn(10) {
				case 0:
					p.Rows = rng.Intn(3)
				case 1:
					p.Rows = 250 + rng.Intn(20)
				case 2:
					p.Rows = 500 + rng.Intn(500)
				default:
					p.Rows = 2 + rng.Intn(60)
				}
				p.PK = gen.PKChoice(rng, p.NCols)
				p.Chunks = chunkModes[rng.Intn(len(chunkModes))]
				p.Dup = []float64{0, 0.2, 0.6}[rng.Intn(3)]
				p.EmptyKey = rng.Intn(3) == 0
				// removed columns: never a key column; keyless tables: any, but keep >=1 column
				isKey := map[int]bool{}
				for _, k := range p.PK {
					isKey[k] = true
				}
				if rng.Intn(2) == 0 && len(p.PK) > 0 { // keyless: the statement does not say what the key is once columns go
					for c := 0; c < p.NCols; c++ {
						if !isKey[c] && rng.Intn(2) == 0 && len(p.Removed) < p.NCols-1 {
							p.Removed = append(p.Removed, c)
						}
					}
				}
				if rng.Intn(4) == 0 && p.NCols >= 2 {
					p.ViaFile, p.Removed = true, nil
				} else if rng.Intn(6) == 0 && p.Rows > 12 && (p.Chunks == "two" || p.Chunks == "five" || p.Chunks == "every") {
					p.SpillFault = 1 + rng.Intn(p.Rows-6)
				} else if i%9 == 4 && len(p.PK) > 0 && p.NCols >= 2 {
					p.Ragged = true
				}
				if i%8 == 5 && !p.ViaFile {
					p.Reuse, p.ReuseRead = 5+rng.Intn(300), rng.Intn(2) == 0
				}
				l.Add("random", p, 0)
			}
			return l.Cases
		},
		Run: c19Run,
	})
}
