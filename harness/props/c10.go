package props

import (
	"fmt"
	"strings"
	"verif/mon"

	"verif/fw"
)

// C10 — without force, a ref only ever moves forward along its own history.

func c10Run(c *fw.Case, env *fw.Env) *fw.Obs {
	o := fw.NewObs(c)
	var p netParams
	c.P(&p)
	rng := c.Rand()
	w, err := buildNet(c, env, &p, rng)
	if err != nil {
		o.Status = "inconclusive"
		o.Note = "setup: " + err.Error()
		if w != nil {
			w.close()
		}
		return o
	}
	defer w.close()
	if err := setupRemoteConfig(w, &p); err != nil {
		o.Status = "inconclusive"
		o.Note = err.Error()
		return o
	}
	forced := p.Force == "global" || p.Force == "refspec"
	class := p.Op
	switch {
	case p.Force == "mixed":
		class += "/mixed-force"
	case forced:
		class += "/forced"
	default:
		class += "/unforced"
	}
	if p.FF != "" {
		class += "/" + p.FF
	}
	// the mode in force: a flag on the command line beats merge.fastForward from the configuration
	eff := p.FF
	if eff == "ff" {
		eff = ""
	} else if eff == "" {
		eff = map[string]string{"never": "no-ff", "only": "ff-only"}[p.FFConf]
	}
	if p.FFConf != "" {
		if out, err, pn := mon.Wrgl(w.localDir, nil, "config", "set", "merge.fastForward", p.FFConf); err != nil || pn != "" {
			o.Status = "inconclusive"
			o.Note = fmt.Sprintf("config set merge.fastForward: %v %s %s", err, pn, out)
			return o
		}
		class += "/configured-" + p.FFConf
		o.Ev("merges_with_configured_mode", 1)
	}
	if p.All {
		class += "/all"
	}
	if p.TagSrc != "" {
		class += "/tag-from-" + p.TagSrc
	}
	if p.Shadow {
		class += "/name-suffix-of-another-branch"
	}
	if p.Peel > 0 {
		class += "/target-below-branch"
	}
	args := netArgs(w, &p)
	out := runNetOp(w, &p, args)
	o.Ev("oracle_evaluations", 1)
	o.Ev("commands_"+p.Op, 1)
	var rel []string
	for _, pl := range w.plans {
		rel = append(rel, pl.Name+":"+pl.Relation)
	}
	o.Sample = map[string]interface{}{"op": p.Op, "plans": rel, "force": p.Force, "ff": p.FF, "args": args, "output": tailStr(out.out, 600), "error": fmt.Sprint(out.err)}
	if out.panicText != "" {
		o.Violate("panic/"+class, "%v: %s", args, out.panicText)
		return o
	}
	isAnc := func(old, new string) bool { // old is an ancestor-or-self of new, by the graph model
		oi, ok1 := w.h.index[old]
		ni, ok2 := w.h.index[new]
		if ok1 && ok2 {
			return w.h.anc[ni][oi]
		}
		if !ok2 {
			// a commit created by the command (merge commit): walk its parents down to model commits
			return descendsFrom(out, new, old, w)
		}
		return false
	}
	recvName := func(pl branchPlan) string {
		if strings.HasPrefix(pl.Name, "tag:") {
			return "tags/" + pl.Name[4:]
		}
		if p.Op == "push" {
			return "heads/" + pl.Name
		}
		return "remotes/origin/" + trackName(pl.Name)
	}
	// 1. every ref that moved without force moved forward; reflog entries are faithful
	for name, nv := range out.refsAfter.vals {
		ov, existed := out.refsBefore.vals[name]
		added := len(out.refsAfter.logs[name]) - len(out.refsBefore.logs[name])
		if existed && ov == nv {
			if added != 0 && !(p.Op == "pull" || p.Op == "merge") {
				o.Violate("log-entry-without-change/"+class, "ref %s kept its value but gained %d reflog entries", name, added)
			}
			continue
		}
		o.Ev("ref_moves", 1)
		kind := name[:strings.IndexByte(name, '/')]
		o.Set("ref_kinds_moved", kind)
		refForced := forced
		if p.Force == "mixed" {
			for i, pl := range w.plans {
				if recvName(pl) == name && planForced(&p, i) {
					refForced = true
				}
			}
		}
		if (p.Op == "pull" || p.Op == "merge") && kind == "heads" {
			refForced = false // a forced refspec is about the tracking ref; the local branch is merged into, never reset
		}
		if existed && !refForced {
			if kind == "tags" {
				o.Violate("tag-overwritten-without-force/"+class, "tag %s changed from %x to %x (%v)", name, ov, nv, args)
				continue
			}
			if !isAnc(ov, nv) {
				o.Violate("non-fast-forward-without-force/"+class, "ref %s moved from %x to %x which does not descend from it (%v)", name, ov, nv, args)
				continue
			}
		}
		// logged refs: exactly one new entry with the true old and new values (tags are saved without a log by push/fetch? they go through SaveFetchRef/SaveRef too)
		if logs := out.refsAfter.logs[name]; len(logs) > 0 || added > 0 {
			if added != 1 {
				o.Violate("reflog-entries/"+class, "ref %s changed once but gained %d reflog entries", name, added)
				continue
			}
			e := logs[0]
			if e.New != nv || e.Old != ov {
				o.Violate("reflog-values/"+class, "ref %s: %x -> %x, but the log entry says %x -> %x", name, ov, nv, e.Old, e.New)
			}
			o.Ev("reflog_entries_checked", 1)
		}
	}
	for name := range out.refsBefore.vals {
		if _, ok := out.refsAfter.vals[name]; !ok {
			o.Violate("ref-deleted/"+class, "ref %s disappeared", name)
		}
	}
	// 2. per plan: the expected disposition
	if p.Op == "fetch" || p.Op == "push" {
		for i, pl := range w.plans {
			forced := planForced(&p, i)
			name := recvName(pl)
			before, had := out.refsBefore.vals[name]
			after := out.refsAfter.vals[name]
			want := string(w.h.sums[pl.Remote])
			ffOK := !had || (w.h.index != nil && pl.Local >= 0 && w.h.anc[pl.Remote][pl.Local] && !strings.HasPrefix(pl.Name, "tag:"))
			o.Set("relations", pl.Relation)
			switch {
			case had && before == want:
				// up to date
			case ffOK || forced:
				o.Ev("updates_expected", 1)
				if after != want {
					// a fetch that fails for one ref must not take the others down with it
					o.Violate("legitimate-update-not-applied/"+class, "ref %s (%s) should have moved to %x but is at %x; output: %s", name, pl.Relation, want, after, tailStr(out.out, 400))
				}
			default:
				o.Ev("rejections_expected", 1)
				if after != before {
					continue // already reported above
				}
				short := pl.Name
				if strings.HasPrefix(short, "tag:") {
					short = short[4:]
				}
				if !strings.Contains(out.out, short) || !(strings.Contains(out.out, "rejected") || strings.Contains(fmt.Sprint(out.err), "failed")) {
					o.Violate("rejection-not-reported/"+class, "update of %s (%s) was refused but the output does not say so: %q err=%v", name, pl.Relation, tailStr(out.out, 400), out.err)
				}
				o.Ev("rejections_observed", 1)
			}
		}
	}
	// 3. pull = fetch + merge into the local branch
	if p.Op == "pull" || p.Op == "merge" {
		pl := w.plans[0]
		name := "heads/" + pl.Name
		before, had := out.refsBefore.vals[name]
		after := out.refsAfter.vals[name]
		remote := string(w.h.sums[pl.Remote])
		if p.ShallowOther {
			// the merged commit has no table here: whatever the relation, the branch must not end up on a commit whose
			// table is not in the repository
			o.Ev("merges_of_a_shallow_commit", 1)
			if after != before {
				if raw, ok := out.afterRecv["com/"+after]; ok {
					if t := tableOfCommit(raw); t != "" {
						if _, ok := out.afterRecv["tbl/"+t]; !ok {
							o.Violate("branch-moved-to-commit-without-table/"+class, "%s went %x -> %x whose table %x is not in the repository (the merged commit was shallow); output %s", name, before, after, t, tailStr(out.out, 300))
						}
					}
				}
			}
			o.Key("%s/shallow-other/%d", class, c.Seed%100000)
			return o
		}
		switch {
		case !had:
			// new local branch created from the fetched commit
			if out.err == nil && after != remote {
				o.Violate("new-branch-not-at-remote/"+class, "pull created %s at %x, the remote branch is at %x", name, after, remote)
			}
		case pl.Relation == "remote-ahead":
			o.Ev("ff_merges_expected", 1)
			if out.err != nil && p.Peel == 0 { // a target spelled below the branch is rightly refused
				o.Violate("fast-forward-refused/"+class, "%s is an ancestor of the other commit, so this is a plain fast-forward, yet the command failed: %v", name, out.err)
			}
			if eff == "no-ff" {
				if out.err == nil && (after == before || !isAnc(before, after) || !isAnc(remote, after)) {
					o.Violate("no-ff-merge-wrong/"+class, "no fast-forward asked for: %s went %x -> %x (must be a new commit descending from both %x and %x)", name, before, after, before, remote)
				}
			} else if out.err == nil && after != remote {
				o.Violate("fast-forward-not-exact/"+class, "fast-forward merge: %s is at %x, the other commit is %x", name, after, remote)
			}
		case pl.Relation == "remote-behind" || pl.Relation == "equal":
			// the branch already contains the other commit: nothing may move (certainly not backwards)
			o.Ev("already_ahead_merges", 1)
			if after != before && !isAnc(before, after) {
				o.Violate("branch-moved-backwards/"+class, "merging an ancestor moved %s from %x to %x, which does not descend from it", name, before, after)
			}
		case pl.Relation == "diverged":
			if eff == "ff-only" {
				o.Ev("ff_only_refusals_expected", 1)
				if after != before {
					o.Violate("ff-only-merged-anyway/"+class, "fast-forward only, on diverged histories: moved %s from %x to %x", name, before, after)
				}
				if out.err == nil {
					o.Violate("ff-only-not-refused/"+class, "fast-forward only, on diverged histories: reported success")
				}
			} else if after != before && (!isAnc(before, after) || !isAnc(remote, after)) {
				o.Violate("merge-commit-wrong-parents/"+class, "merge moved %s from %x to %x which does not descend from both sides", name, before, after)
			}
		}
	}
	if len(w.plans) > 0 {
		o.Key("%s/%s/%d", class, strings.Join(rel, ","), c.Seed%100000)
	}
	return o
}

// descendsFrom walks the parents of a commit in the receiver's object snapshot.
func descendsFrom(out *netOutcome, tip, anc string, w *netWorld) bool {
	seen := map[string]bool{}
	stack := []string{tip}
	for len(stack) > 0 {
		s := stack[len(stack)-1]
		stack = stack[:len(stack)-1]
		if seen[s] {
			continue
		}
		seen[s] = true
		if s == anc {
			return true
		}
		if ni, ok := w.h.index[s]; ok {
			if ai, ok := w.h.index[anc]; ok && w.h.anc[ni][ai] {
				return true
			}
			continue
		}
		raw, ok := out.afterRecv["com/"+s]
		if !ok {
			continue
		}
		for _, p := range parseParents(raw) {
			stack = append(stack, p)
		}
	}
	return false
}

// tableOfCommit reads the table sum out of an encoded commit ("table <16 bytes>" is its first line).
func tableOfCommit(raw []byte) string {
	if len(raw) >= 6+16 && string(raw[:6]) == "table " {
		return string(raw[6 : 6+16])
	}
	return ""
}

func parseParents(raw []byte) []string {
	var ps []string
	rest := raw
	for {
		i := indexOf(rest, []byte("\nparent "))
		if i < 0 {
			break
		}
		if len(rest) >= i+8+16 {
			ps = append(ps, string(rest[i+8:i+8+16]))
		}
		rest = rest[i+8:]
	}
	return ps
}

func indexOf(b, sub []byte) int {
	for i := 0; i+len(sub) <= len(b); i++ {
		if string(b[i:i+len(sub)]) == string(sub) {
			return i
		}
	}
	return -1
}

func init() {
	fw.Register(&fw.Property{
		ID:          "C10",
		Level:       "exploration",
		Rule:        "the C09 scenario generator biased to the relations (equal, sender ahead, sender behind, diverged, unrelated, new, tag clobber) x ref kinds (head, remote-tracking, tag) x force {none, '+' refspec, --force} x merge mode {ff, --no-ff, --ff-only}, several refs per command so that rejections and successes mix; fetch also as --all with the refspecs in the remote's configuration; a pushed tag spelled refs/tags/x, x:refs/tags/x, x or refs/heads/b:refs/tags/x, with the receiver's tag on an ancestor, and a second tag sorting after it; merges and pulls with a second branch whose name merely ends with the merged branch's name, with the target spelled below the branch (b0^), with a merged commit that lacks its table; merge.fastForward set in the configuration (never, only) alone and overridden by a flag; pull with a '+' refspec (which concerns the tracking ref only: the local branch may never move backwards) and a branch called v1.0; tags with a slash in their name; the real `wrgl fetch` / `push` / `pull` in-process against the reference server; ref values and full reflogs are snapshotted before and after: every ref that changed without force must descend from its old value (harness graph model), an existing tag never changes without force, refused updates keep the old value and are named in the output while legitimate updates of the same command still happen, a fast-forward merge lands exactly on the other commit, --no-ff creates a descendant of both, --ff-only refuses a true merge, and each change adds exactly one reflog entry with the true old and new values; distinct_nontrivial = distinct (operation, force, relations, seed)",
		Assumptions: []string{"pushes are gated on the client in wrgl; the reference server applies whatever it is sent"},
		Workers:     8,
		Gen: func(tier string, seed int64) []fw.Case {
			l := fw.NewCaseList("C10", tier, seed)
			rng := l.Rng()
			// fixed: merging an ancestor into a branch that is ahead (every merge mode), and a fetch with mixed '+' refspecs
			for i, ff := range []string{"", "no-ff", "ff-only"} {
				l.Add("merge", netParams{Op: "merge", N: 8, BaseRows: 4, Branches: 1, Rel: "remote-behind", FF: ff}, int64(1001+i))
				l.Add("merge", netParams{Op: "merge", N: 8, BaseRows: 4, Branches: 1, Rel: "remote-ahead", FF: ff}, int64(1011+i))
			}
			// merge.fastForward from the configuration, alone and overridden by a flag
			for i, rel := range []string{"remote-ahead", "diverged", "remote-ahead", "diverged", "remote-behind", "remote-ahead", "diverged", "remote-ahead"} {
				l.Add("merge", netParams{Op: "merge", N: 8, BaseRows: 4, Branches: 1, Rel: rel, FFConf: []string{"never", "only"}[i/2%2], FF: []string{"ff", "", "ff", "no-ff", "ff-only", "ff"}[i%6]}, int64(1121+i))
			}
			for i, rel := range []string{"remote-ahead", "diverged", "remote-ahead", "diverged"} {
				l.Add("pull", netParams{Op: "pull", N: 8, BaseRows: 4, Branches: 1, Rel: rel, FFConf: []string{"never", "only"}[i/2%2], FF: []string{"ff", "ff", "", "ff"}[i%4]}, int64(1141+i))
			}
			// a branch name with a dot in it
			for i, rel := range []string{"diverged", "remote-ahead", "diverged", "diverged", "new", "diverged"} {
				l.Add("pull", netParams{Op: "pull", N: 8, BaseRows: 4, Branches: 1, Rel: rel, DotName: i != 3, Force: []string{"refspec", "", "refspec", "refspec", "", "refspec"}[i]}, int64(1151+i))
			}
			// the merge target spelled as "a commit below the branch": whatever wrgl does with it, the branch may only
			// move forward along its own history
			for i, rel := range []string{"diverged", "remote-ahead", "diverged", "remote-behind", "diverged", "remote-ahead"} {
				l.Add("merge", netParams{Op: "merge", N: 9, BaseRows: 4, Branches: 1, Rel: rel, Peel: 1 + i%2, FF: []string{"", "", "ff-only"}[i%3]}, int64(1081+i))
			}
			for i, rel := range []string{"remote-ahead", "remote-ahead", "diverged", "remote-ahead", "remote-behind", "remote-ahead"} {
				l.Add("merge", netParams{Op: "merge", N: 8, BaseRows: 4, Branches: 1, Rel: rel, ShallowOther: true, FF: []string{"", "no-ff", "", "ff-only"}[i%4]}, int64(1101+i))
			}
			for i, rel := range []string{"remote-ahead", "diverged", "remote-behind", "diverged", "remote-ahead", "diverged"} {
				l.Add("merge", netParams{Op: "merge", N: 8, BaseRows: 4, Branches: 1, Rel: rel, Shadow: true, FF: []string{"", "no-ff"}[i%2]}, int64(1071+i))
			}
			for i := 0; i < 6; i++ {
				l.Add("fetch", netParams{Op: "fetch", N: 9, BaseRows: 4, Branches: 4, Tags: true, Force: "mixed"}, int64(1021+i))
				l.Add("fetch", netParams{Op: "fetch", N: 9, BaseRows: 4, Branches: 4, Tags: true, All: true, Force: []string{"", "", "mixed"}[i%3]}, int64(1031+i))
				l.Add("push", netParams{Op: "push", N: 9, BaseRows: 4, Branches: 2, Tags: true, TagSrc: []string{"short", "bare", "head"}[i%3]}, int64(1041+i))
				l.Add("push", netParams{Op: "push", N: 9, BaseRows: 4, Branches: 2, Tags: true, TagRel: "clobber", TagSrc: []string{"short", "bare", "head", ""}[i%4]}, int64(1051+i))
				l.Add("fetch", netParams{Op: "fetch", N: 9, BaseRows: 4, Branches: 2, Tags: true, Tags2: true, TagRel: "clobber", All: i%2 == 0}, int64(1061+i))
				l.Add("fetch", netParams{Op: "fetch", N: 9, BaseRows: 4, Branches: 2, Tags: true, TagSlash: true, TagRel: "clobber", All: i%2 == 1}, int64(1091+i))
			}
			for i := 0; i < l.N(150, 8000); i++ {
				p := netParams{N: 4 + rng.Intn(9), BaseRows: 4, Branches: 1 + rng.Intn(4), Tags: rng.Intn(2) == 0}
				switch rng.Intn(10) {
				case 0, 1, 2, 3:
					p.Op = "fetch"
				case 4, 5, 6:
					p.Op = "push"
				default:
					p.Op = "pull"
					p.Tags = false
					p.Branches = 1
					p.FF = []string{"", "", "no-ff", "ff-only"}[rng.Intn(4)]
					p.Rel = []string{"remote-ahead", "remote-ahead", "diverged", "diverged", "equal", "new", "remote-behind"}[rng.Intn(7)]
				}
				p.Force = []string{"", "", "", "global", "refspec", "mixed", "mixed"}[rng.Intn(7)]
				if p.Op == "fetch" && rng.Intn(3) == 0 {
					p.All = true // the same refspecs, taken from the remote's configuration by `fetch --all`
				}
				if p.Tags && rng.Intn(2) == 0 {
					p.Tags2 = true
				}
				if p.Tags && rng.Intn(3) == 0 {
					p.TagSlash = true
				}
				if p.Op == "push" && p.Tags {
					p.TagSrc = []string{"", "short", "bare", "head"}[rng.Intn(4)]
				}
				if p.Op == "pull" {
					p.Force = ""
					if rng.Intn(2) == 0 {
						p.Op = "merge"
						p.Rel = []string{"remote-ahead", "remote-behind", "remote-behind", "diverged", "equal"}[rng.Intn(5)]
						if p.N < 6 {
							p.N = 6 + rng.Intn(6)
						}
					}
				}
				if (p.Op == "pull" || p.Op == "merge") && rng.Intn(3) == 0 {
					p.Shadow = true
				}
				if p.Op != "merge" && i%6 == 4 {
					p.H2 = true // the exchange runs over HTTP/2 on TLS
				}
				l.Add(p.Op, p, 0)
			}
			return l.Cases
		},
		CaseTimeoutS: 900,
		Run:          c10Run,
	})
}
