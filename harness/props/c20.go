package props

import (
	"bytes"
	"encoding/binary"
	"fmt"
	"io"
	"math/rand"
	"os"
	"path/filepath"

	"github.com/wrgl/wrgl/pkg/index"
	"github.com/wrgl/wrgl/pkg/misc"

	"verif/fw"
)

// C20 — the on-disk hash set answers membership exactly like a set.

type c20Params struct {
	Universe int    `json:"universe"`
	Steps    int    `json:"steps"`
	Batch    uint32 `json:"batch"`
	Backing  string `json:"backing"` // file | buffer
	// Script, when non-empty, is a fixed program: "a<i>" add universe[i], "f" flush, "r" reopen.
	Script []string `json:"script,omitempty"`
	// Carved: the hashes handed to Add are sub-slices of one arena (capacity reaching over the following hashes) instead
	// of separately allocated slices; the caller never writes to the arena again.
	Carved bool `json:"carved,omitempty"`
	// OneBucket: every hash of the universe has the same first byte; adds come first, flushes are rare
	OneBucket bool `json:"one_bucket,omitempty"`
}

func c20Universe(rng *rand.Rand, n int) [][]byte {
	firsts := []byte{0x00, 0x00, 0x01, 0x80, 0xFF, 0xFF, 0xFE, 0x7F}
	tails := [][]byte{
		bytes.Repeat([]byte{0x00}, 15),
		bytes.Repeat([]byte{0xFF}, 15),
		append(bytes.Repeat([]byte{0x00}, 14), 0x01),
		append(bytes.Repeat([]byte{0xFF}, 14), 0xFE),
		append([]byte{0x80}, bytes.Repeat([]byte{0x00}, 14)...),
	}
	seen := map[string]bool{}
	var u [][]byte
	for len(u) < n {
		h := make([]byte, 16)
		h[0] = firsts[rng.Intn(len(firsts))]
		if rng.Intn(3) == 0 {
			h[0] = byte(rng.Intn(256))
		}
		if rng.Intn(2) == 0 {
			copy(h[1:], tails[rng.Intn(len(tails))])
		} else {
			for i := 1; i < 16; i++ {
				h[i] = byte(rng.Intn(4)) * 85
			}
		}
		if !seen[string(h)] {
			seen[string(h)] = true
			u = append(u, h)
		}
	}
	return u
}

type c20Backing struct {
	kind string
	path string
	f    *os.File
	buf  *misc.Buffer
}

func (b *c20Backing) raw() []byte {
	if b.kind == "file" {
		d, _ := os.ReadFile(b.path)
		return d
	}
	return b.buf.Bytes()
}

func (b *c20Backing) open() (index.ReadWriteSeekCloser, error) {
	if b.kind == "file" {
		f, err := os.OpenFile(b.path, os.O_RDWR|os.O_CREATE, 0644)
		if err != nil {
			return nil, err
		}
		b.f = f
		return f, nil
	}
	if b.buf == nil {
		b.buf = misc.NewBuffer(nil)
	}
	b.buf.Seek(0, io.SeekStart)
	return b.buf, nil
}

func c20Check(o *fw.Obs, hs *index.HashSet, back *c20Backing, univ [][]byte, model map[string]bool, when string) {
	// membership over the whole universe
	for _, h := range univ {
		var got bool
		var err error
		hh := append([]byte(nil), h...)
		if p := fw.Catch(func() { got, err = hs.Has(hh) }); p != "" {
			o.Violate("panic/Has", "%s: Has(%x) panicked: %s", when, h, p)
			return
		}
		o.Ev("has_calls", 1)
		if err != nil {
			o.Violate("has-error/HashSet.Has", "%s: Has(%x) error %v", when, h, err)
			return
		}
		if got != model[string(h)] {
			cls := "false-negative"
			if got {
				cls = "false-positive"
			}
			o.Violate("membership/"+cls+"/HashSet.Has", "%s: Has(%x)=%v, model %v", when, h, got, model[string(h)])
			return
		}
	}
	raw := back.raw()
	n := hs.Len()
	if len(model) == 0 && len(raw) == 0 {
		return
	}
	if len(raw) < 1024+16*n {
		if n == 0 {
			return
		}
		o.Violate("file-short/HashSet", "%s: file has %d bytes, Len()=%d", when, len(raw), n)
		return
	}
	var fan [256]uint32
	for i := range fan {
		fan[i] = binary.BigEndian.Uint32(raw[4*i:])
	}
	entries := make([][]byte, n)
	for i := 0; i < n; i++ {
		entries[i] = raw[1024+16*i : 1024+16*i+16]
	}
	stored := map[string]bool{}
	for i, e := range entries {
		stored[string(e)] = true
		if i > 0 && bytes.Compare(entries[i-1], e) > 0 {
			o.Violate("order/stored-entries-not-sorted/HashSet", "%s: entry %d %x > entry %d %x", when, i-1, entries[i-1], i, e)
			return
		}
		if !model[string(e)] {
			o.Violate("stored-non-member/HashSet", "%s: stored entry %x was never added", when, e)
			return
		}
	}
	for h := range model {
		if !stored[h] {
			o.Violate("member-not-stored/HashSet", "%s: member %x absent from stored entries", when, []byte(h))
			return
		}
	}
	var cnt [256]uint32
	for _, e := range entries {
		cnt[e[0]]++
	}
	var acc uint32
	for b := 0; b < 256; b++ {
		acc += cnt[b]
		if fan[b] != acc {
			o.Violate("fanout/inconsistent/HashSet", "%s: fanout[%d]=%d but %d stored entries have first byte <= %d (Len=%d)", when, b, fan[b], acc, b, n)
			return
		}
	}
	o.Ev("structure_checks", 1)
}

func c20Run(c *fw.Case, env *fw.Env) *fw.Obs {
	o := fw.NewObs(c)
	var p c20Params
	c.P(&p)
	rng := c.Rand()
	univ := c20Universe(rng, p.Universe)
	if p.OneBucket {
		univ = nil
		for i := 0; len(univ) < p.Universe; i++ {
			h := make([]byte, 16)
			h[0] = 0x42
			h[14], h[15] = byte(i>>8), byte(i)
			h[1+i%13] = byte(i * 7)
			univ = append(univ, h)
		}
	}
	back := &c20Backing{kind: p.Backing, path: filepath.Join(env.Dir, "hashset_"+c.ID)}
	defer os.Remove(back.path)
	r, err := back.open()
	if err != nil {
		o.Status = "inconclusive"
		o.Note = err.Error()
		return o
	}
	hs, err := index.NewHashSet(r, p.Batch)
	if err != nil {
		o.Violate("open-error/NewHashSet", "NewHashSet on empty backing: %v", err)
		return o
	}
	model := map[string]bool{}
	pending := 0
	var trace []string
	var arena, arenaCopy []byte
	carve := make([][]byte, len(univ))
	if p.Carved {
		arena = make([]byte, 16*len(univ))
		for slot, i := range rng.Perm(len(univ)) {
			copy(arena[16*slot:], univ[i])
			carve[i] = arena[16*slot : 16*slot+16] // capacity runs on over the hashes stored behind it
		}
		arenaCopy = append([]byte(nil), arena...)
	}
	step := func(op string) bool {
		trace = append(trace, op)
		switch op[0] {
		case 'a':
			var i int
			fmt.Sscanf(op[1:], "%d", &i)
			h := append([]byte(nil), univ[i%len(univ)]...) // fresh slice per Add, as RowCollector does
			if p.Carved {
				h = carve[i%len(univ)]
			}
			was := model[string(h)]
			var err error
			if pn := fw.Catch(func() { err = hs.Add(h) }); pn != "" {
				o.Violate("panic/Add", "Add panicked after %v: %s", trace, pn)
				return false
			}
			if err != nil {
				o.Violate("add-error/HashSet.Add", "Add(%x): %v", h, err)
				return false
			}
			model[string(h)] = true
			pending++
			o.Ev("adds", 1)
			if was {
				o.Ev("repeat_adds", 1)
			}
			if p.Batch != 0 && uint32(pending) >= p.Batch {
				pending = 0 // auto flush happened (or nothing was pending)
			}
		case 'f':
			var err error
			if pn := fw.Catch(func() { err = hs.Flush() }); pn != "" {
				o.Violate("panic/Flush", "Flush panicked after %v: %s", trace, pn)
				return false
			}
			if err != nil {
				o.Violate("flush-error/HashSet.Flush", "Flush: %v", err)
				return false
			}
			pending = 0
			o.Ev("flushes", 1)
			c20Check(o, hs, back, univ, model, fmt.Sprintf("after flush, step %d", len(trace)))
		case 'r':
			// flush, close, reopen from the same file
			if err := hs.Flush(); err != nil {
				o.Violate("flush-error/HashSet.Flush", "Flush: %v", err)
				return false
			}
			pending = 0
			if back.kind == "file" {
				hs.Close()
			}
			r, err := back.open()
			if err != nil {
				o.Status = "inconclusive"
				o.Note = err.Error()
				return false
			}
			hs, err = index.NewHashSet(r, p.Batch)
			if err != nil {
				o.Violate("open-error/NewHashSet", "reopen: %v", err)
				return false
			}
			o.Ev("reopens", 1)
			c20Check(o, hs, back, univ, model, fmt.Sprintf("after reopen, step %d", len(trace)))
		}
		return len(o.Viols) == 0
	}
	if len(p.Script) > 0 {
		for _, op := range p.Script {
			if !step(op) {
				break
			}
		}
	} else {
		for i := 0; i < p.Steps; i++ {
			var op string
			switch x := rng.Intn(20); {
			case p.OneBucket && i < len(univ):
				op = fmt.Sprintf("a%d", i) // every hash once; nothing is flushed before they are all pending
			case x < 15:
				// bias towards a small hot subset to force repeats and shared buckets
				if rng.Intn(3) == 0 {
					op = fmt.Sprintf("a%d", rng.Intn(1+len(univ)/8))
				} else {
					op = fmt.Sprintf("a%d", rng.Intn(len(univ)))
				}
			case x < 18:
				op = "f"
			default:
				op = "r"
			}
			if !step(op) {
				break
			}
		}
	}
	if len(o.Viols) == 0 {
		step("f")
	}
	if len(o.Viols) == 0 {
		step("r")
	}
	if back.f != nil {
		back.f.Close()
	}
	if p.Carved && !bytes.Equal(arena, arenaCopy) {
		o.Violate("caller-memory-modified/HashSet.Add", "the hashes handed to Add were slices of one caller-owned buffer; the set wrote into that buffer (first difference at byte %d) - trace %v", firstDiff(arena, arenaCopy), trace)
	}
	buckets := map[byte]int{}
	for h := range model {
		buckets[h[0]]++
	}
	shared := 0
	for _, n := range buckets {
		if n > 1 {
			shared++
		}
	}
	o.Ev("shared_buckets", int64(shared))
	if len(model) >= 2 && o.Events["flushes"] >= 1 {
		o.Key("u%d/b%d/%s/m%d/s%d", p.Universe, p.Batch, p.Backing, len(model), c.Seed%100000)
	}
	if len(o.Viols) > 0 {
		o.Note = fmt.Sprintf("trace: %v", trace)
	}
	tr := trace
	if len(tr) > 24 {
		tr = tr[:24]
	}
	o.Sample = map[string]interface{}{"batch": p.Batch, "backing": p.Backing, "universe": p.Universe, "members": len(model), "first_ops": tr, "flushes": o.Events["flushes"], "reopens": o.Events["reopens"]}
	return o
}

func init() {
	fw.Register(&fw.Property{
		ID:          "C20",
		Level:       "exploration",
		Rule:        "seeded Add/Flush/reopen programs over a small hash universe (few first bytes incl. 0x00/0xFF, few tails) x batch sizes (and bulk programs with hundreds to 1 700 pending hashes of one first byte under batch sizes up to 4096) x file/buffer backing x hashes passed as separate slices or as slices carved from one buffer (which must come back unmodified); after every flush and reopen Has is compared with a Go map for EVERY hash of the universe and the raw file is checked for sorted entries and a consistent fan-out; distinct_nontrivial = distinct (universe,batch,backing,members,seed) programs with >=2 members and >=1 flush",
		Assumptions: []string{"callers never modify a slice after handing it to Add (fresh slices as RowCollector passes them, or read-only slices of one buffer)", "Len() equal to the model size is not demanded"},
		Gen: func(tier string, seed int64) []fw.Case {
			l := fw.NewCaseList("C20", tier, seed)
			// fixed corpus
			fixed := [][]string{
				{"a0", "f", "a1", "f", "a2", "f"},
				{"a0", "a1", "a2", "a3", "f", "a4", "a5", "f", "r", "a6", "f"},
				{"a3", "a2", "a1", "a0", "f", "a7", "a6", "a5", "a4", "f"},
				{"a0", "a0", "f", "a0", "f"},
				{"f", "r", "a1", "r"},
			}
			for i, sc := range fixed {
				for _, b := range []uint32{0, 1, 2, 3} {
					for _, bk := range []string{"file", "buffer"} {
						l.Add("fixed", c20Params{Universe: 48, Batch: b, Backing: bk, Script: sc}, int64(1000+i))
					}
				}
			}
			// many hashes of one bucket pending in a single flush (a per-bucket counter of one byte would wrap)
			for i := 0; i < l.N(6, 120); i++ {
				l.Add("bulk", c20Params{Universe: 300 + 60*(i%5), Steps: 900, Batch: []uint32{0, 400, 1000}[i%3], Backing: []string{"file", "buffer"}[i%2], OneBucket: true}, int64(3000+i))
			}
			// ... and more than a thousand of them under a batch size above the default
			for i := 0; i < l.N(3, 60); i++ {
				u := 1100 + 150*(i%5)
				l.Add("bulk", c20Params{Universe: u, Steps: u + 40, Batch: []uint32{1500, 2048, 4096}[i%3], Backing: []string{"file", "buffer"}[i%2], OneBucket: true}, int64(3500+i))
			}
			n := l.N(1000, 60000)
			rng := l.Rng()
			for i := 0; i < n; i++ {
				p := c20Params{Universe: 48 + rng.Intn(153), Steps: 1 + rng.Intn(300)}
				switch rng.Intn(5) {
				case 0:
					p.Batch = 0
				default:
					p.Batch = uint32(1 + rng.Intn(8))
				}
				p.Backing = []string{"file", "buffer"}[rng.Intn(2)]
				p.Carved = rng.Intn(3) == 0
				l.Add("program", p, 0)
			}
			return l.Cases
		},
		Run: c20Run,
	})
}

func firstDiff(a, b []byte) int {
	for i := range a {
		if i >= len(b) || a[i] != b[i] {
			return i
		}
	}
	return -1
}
