package props

import (
	"bytes"
	"fmt"
	"github.com/wrgl/wrgl/pkg/ref"
	"io"
	"math/rand"
	"os"
	"os/exec"
	"path/filepath"
	"sort"
	"strconv"
	"strings"
	"syscall"
	"time"
	"verif/refserver"

	"github.com/go-logr/logr"
	apiutils "github.com/wrgl/wrgl/pkg/api/utils"
	"github.com/wrgl/wrgl/pkg/objects"
	"github.com/wrgl/wrgl/pkg/prune"

	"verif/fw"
	"verif/gen"
	"verif/mon"
)

// C13 — a crash at any point leaves the repository consistent and the op repeatable.

type c13Params struct {
	Driver  string `json:"driver"` // cli | pkg-ingest | pkg-receive | pkg-prune
	Op      string `json:"op"`
	Rows    int    `json:"rows"`
	Fault   string `json:"fault"` // crash | fail
	Workers int    `json:"workers"`
}

func copyDir(src, dst string) error {
	return filepath.Walk(src, func(p string, info os.FileInfo, err error) error {
		if err != nil {
			return err
		}
		rel, _ := filepath.Rel(src, p)
		t := filepath.Join(dst, rel)
		if info.IsDir() {
			return os.MkdirAll(t, 0755)
		}
		b, err := os.ReadFile(p)
		if err != nil {
			return err
		}
		return os.WriteFile(t, b, info.Mode())
	})
}

type cliResult struct {
	out      string
	exit     int
	killed   bool
	timedOut bool
}

// runWrglProc runs the real binary (built with -tags verif) in dir.
func runWrglProc(env *fw.Env, dir string, extraEnv []string, args ...string) cliResult {
	cmd := exec.Command(env.WrglBin, args...)
	cmd.Dir = dir
	cmd.Env = append(os.Environ(), "HOME="+dir, "XDG_CONFIG_HOME="+filepath.Join(dir, ".config"), "TMPDIR="+dir)
	cmd.Env = append(cmd.Env, extraEnv...)
	var buf bytes.Buffer
	cmd.Stdout = &buf
	cmd.Stderr = &buf
	if err := cmd.Start(); err != nil {
		return cliResult{out: err.Error(), exit: -1}
	}
	done := make(chan error, 1)
	go func() { done <- cmd.Wait() }()
	var res cliResult
	select {
	case err := <-done:
		if err != nil {
			if ee, ok := err.(*exec.ExitError); ok {
				res.exit = ee.ExitCode()
				if ws, ok := ee.Sys().(syscall.WaitStatus); ok && ws.Signaled() && ws.Signal() == syscall.SIGKILL {
					res.killed = true
				}
			} else {
				res.exit = -1
			}
		}
	case <-time.After(120 * time.Second):
		cmd.Process.Signal(syscall.SIGQUIT)
		select {
		case <-done:
		case <-time.After(10 * time.Second):
			cmd.Process.Kill()
			<-done
		}
		res.timedOut = true
		res.exit = -2
	}
	res.out = buf.String()
	return res
}

type c13Scenario struct {
	args     []string // the operation under test
	needHead bool     // heads/* written by this op must have their table
	close    func()   // scenario resources that live as long as the case (the reference server of fetch/pull)
	// afterFault is another command the user runs on the interrupted repository before repeating the operation (e.g.
	// prune); the repository must satisfy the invariants after it as well
	afterFault []string
}

// c13Remote builds the remote side of the fetch/pull scenarios: a seeded history in memory stores behind the reference
// server, which runs in this worker while the real `wrgl` binary talks to it over the loopback interface.
func c13Remote(p *c13Params) (*history, *mon.MemStore, ref.Store, *refserver.Server, func(), error) {
	db := mon.NewMemStore()
	rng := rand.New(rand.NewSource(int64(p.Rows)*7919 + 13))
	// c0 <- c1 <- c2 <- c4(merge of c2,c3), c1 <- c3 ; tag on c3
	h, err := buildHistory(db, rng, histOpts{BaseRows: p.Rows, Parents: [][]int{{}, {0}, {1}, {1}, {2, 3}}})
	if err != nil {
		return nil, nil, nil, nil, nil, err
	}
	rs, sdb, err := mon.NewMemRefStore()
	if err != nil {
		return nil, nil, nil, nil, nil, err
	}
	srv := refserver.New(db, rs, 2000)
	return h, db, rs, srv, func() { srv.Close(); sdb.Close() }, nil
}

func writeCSV(path string, rows int, variant int) {
	t := &gen.Table{Cols: []string{"id", "a", "b"}}
	for i := 0; i < rows; i++ {
		t.Rows = append(t.Rows, []string{fmt.Sprintf("r%05d", i), fmt.Sprintf("a%d", i%7), fmt.Sprintf("b%d", i%11)})
	}
	switch variant {
	case 1: // edit near the start + append
		if rows > 0 {
			t.Rows[0][1] = "edited1"
		}
		t.Rows = append(t.Rows, []string{"zz1", "n", "1"})
	case 2: // edit near the end
		if rows > 1 {
			t.Rows[rows-1][2] = "edited2"
		}
		t.Rows = append(t.Rows, []string{"zz2", "n", "2"})
	case 3:
		if rows > 2 {
			t.Rows[rows/2][1] = "edited3"
		}
	}
	os.WriteFile(path, gen.ToCSV(t, 0), 0644)
}

// c13Template prepares the repository state before the operation under test, using the real binary.
func c13Template(env *fw.Env, dir string, p *c13Params) (*c13Scenario, error) {
	run := func(args ...string) (string, error) {
		r := runWrglProc(env, dir, nil, args...)
		if r.exit != 0 {
			return r.out, fmt.Errorf("wrgl %v: exit %d: %s", args, r.exit, r.out)
		}
		return r.out, nil
	}
	for _, a := range [][]string{{"init"}, {"config", "set", "user.name", "V"}, {"config", "set", "user.email", "v@example.com"}} {
		if _, err := run(a...); err != nil {
			return nil, err
		}
	}
	w := strconv.Itoa(p.Workers)
	writeCSV(filepath.Join(dir, "d0.csv"), p.Rows, 0)
	writeCSV(filepath.Join(dir, "d1.csv"), p.Rows, 1)
	writeCSV(filepath.Join(dir, "d2.csv"), p.Rows, 2)
	commit := func(branch, file, msg string) error {
		_, err := run("commit", branch, file, msg, "-p", "id", "--no-progress", "-n", w)
		return err
	}
	sc := &c13Scenario{needHead: true}
	switch p.Op {
	case "commit-new":
		sc.args = []string{"commit", "main", "d0.csv", "first", "-p", "id", "--no-progress", "-n", w}
	case "commit-existing":
		if err := commit("main", "d0.csv", "first"); err != nil {
			return nil, err
		}
		sc.args = []string{"commit", "main", "d1.csv", "second", "-p", "id", "--no-progress", "-n", w}
	case "merge-ff", "merge-noff":
		if err := commit("main", "d0.csv", "first"); err != nil {
			return nil, err
		}
		if _, err := run("branch", "create", "other", "main"); err != nil {
			return nil, err
		}
		if err := commit("other", "d1.csv", "second"); err != nil {
			return nil, err
		}
		sc.args = []string{"merge", "main", "other", "--no-progress"}
		if p.Op == "merge-noff" {
			sc.args = append(sc.args, "--no-ff")
		}
	case "merge-real":
		if err := commit("main", "d0.csv", "first"); err != nil {
			return nil, err
		}
		if _, err := run("branch", "create", "other", "main"); err != nil {
			return nil, err
		}
		if err := commit("other", "d1.csv", "edit one"); err != nil {
			return nil, err
		}
		if err := commit("main", "d2.csv", "edit two"); err != nil {
			return nil, err
		}
		sc.args = []string{"merge", "main", "other", "--no-progress", "-n", w}
	case "prune":
		if err := commit("main", "d0.csv", "first"); err != nil {
			return nil, err
		}
		if err := commit("tmp", "d1.csv", "orphan 1"); err != nil {
			return nil, err
		}
		if err := commit("tmp", "d2.csv", "orphan 2"); err != nil {
			return nil, err
		}
		if err := commit("main", "d2.csv", "second"); err != nil {
			return nil, err
		}
		if _, err := run("branch", "delete", "tmp"); err != nil {
			return nil, err
		}
		sc.args = []string{"prune", "--no-progress"}
		sc.needHead = true
	case "commit-shared":
		// the committed data equals a table another branch already uses: nothing of it may be taken away again
		if err := commit("main", "d0.csv", "first"); err != nil {
			return nil, err
		}
		if err := commit("other", "d1.csv", "other holds d1"); err != nil {
			return nil, err
		}
		sc.args = []string{"commit", "main", "d1.csv", "same data as other", "-p", "id", "--no-progress", "-n", w}
	case "commit-then-prune":
		// the repository has garbage to prune; the commit is interrupted, prune runs on what it left, then the commit is repeated
		for v := 3; v <= 6; v++ { // several surviving tables, so that their blocks are spread over the key space
			writeCSV(filepath.Join(dir, fmt.Sprintf("d%d.csv", v)), p.Rows+v, v)
			if err := commit("main", fmt.Sprintf("d%d.csv", v), fmt.Sprintf("surviving %d", v)); err != nil {
				return nil, err
			}
		}
		if err := commit("tmp", "d2.csv", "orphan"); err != nil {
			return nil, err
		}
		if _, err := run("branch", "delete", "tmp"); err != nil {
			return nil, err
		}
		sc.args = []string{"commit", "main", "d1.csv", "second", "-p", "id", "--no-progress", "-n", w}
		sc.afterFault = []string{"prune", "--no-progress"}
	case "commit-revert":
		if err := commit("main", "d0.csv", "first"); err != nil {
			return nil, err
		}
		if err := commit("main", "d1.csv", "second"); err != nil {
			return nil, err
		}
		sc.args = []string{"commit", "main", "d0.csv", "back to the first data", "-p", "id", "--no-progress", "-n", w}
	case "fetch", "pull":
		h, _, rrs, srv, closeFn, err := c13Remote(p)
		if err != nil {
			return nil, err
		}
		sc.close = closeFn
		if _, err := run("remote", "add", "origin", srv.URL()); err != nil {
			return nil, err
		}
		save := func(name string, i int) {
			ref.SaveRef(rrs, name, h.sums[i], "setup", "s@x", "setup", "remote", nil)
		}
		if p.Op == "fetch" {
			save("heads/main", 4)
			save("heads/side", 3)
			save("tags/rel1", 2)
			sc.args = []string{"fetch", "origin", "--no-progress"}
		} else {
			// the local branch follows origin/main at c1; the remote then moves on to the merge commit c4
			save("heads/main", 1)
			if _, err := run("pull", "main", "origin", "refs/heads/main:refs/remotes/origin/main", "--no-progress", "--set-upstream"); err != nil {
				return nil, err
			}
			save("heads/main", 4)
			sc.args = []string{"pull", "main", "--no-progress"}
		}
	case "tx-commit":
		if err := commit("main", "d0.csv", "first"); err != nil {
			return nil, err
		}
		out, err := run("transaction", "start")
		if err != nil {
			return nil, err
		}
		id := strings.TrimSpace(out)
		if i := strings.LastIndexByte(id, '\n'); i >= 0 {
			id = id[i+1:]
		}
		for _, a := range [][]string{
			{"commit", "main", "d1.csv", "tx main", "-p", "id", "--no-progress", "--txid", id},
			{"commit", "fresh", "d2.csv", "tx fresh", "-p", "id", "--no-progress", "--txid", id},
		} {
			if _, err := run(a...); err != nil {
				return nil, err
			}
		}
		sc.args = []string{"transaction", "commit", id}
	default:
		return nil, fmt.Errorf("unknown op %s", p.Op)
	}
	return sc, nil
}

func openRepoStores(dir string) (objects.Store, *mon.RepoHandle, error) {
	h, err := mon.OpenRepoHandle(filepath.Join(dir, ".wrgl"))
	if err != nil {
		return nil, nil, err
	}
	return h.DB, h, nil
}

func c13CLI(c *fw.Case, env *fw.Env, o *fw.Obs, p *c13Params) *fw.Obs {
	base := filepath.Join(env.Dir, "c13-"+c.ID)
	os.RemoveAll(base)
	defer os.RemoveAll(base)
	tmpl := filepath.Join(base, "tmpl")
	os.MkdirAll(tmpl, 0755)
	sc, err := c13Template(env, tmpl, p)
	if err != nil {
		o.Status = "inconclusive"
		o.Note = err.Error()
		return o
	}
	if sc.close != nil {
		defer sc.close()
	}
	class := p.Op + "/" + p.Fault
	// uninterrupted run: learn the write sequence and the outcome
	ref0 := filepath.Join(base, "ref")
	copyDir(tmpl, ref0)
	wlog := filepath.Join(base, "writes.log")
	r := runWrglProc(env, ref0, []string{"VERIF_WRITE_LOG=" + wlog}, sc.args...)
	if r.exit != 0 {
		o.Violate("uninterrupted-run-fails/wrgl-"+p.Op, "%v: exit %d: %s", sc.args, r.exit, r.out)
		return o
	}
	wl, _ := os.ReadFile(wlog)
	writes := strings.Split(strings.TrimSpace(string(wl)), "\n")
	if len(wl) == 0 {
		writes = nil
	}
	n := len(writes)
	o.Ev("write_sequence_length", int64(n))
	db, h, err := openRepoStores(ref0)
	if err != nil {
		o.Status = "inconclusive"
		o.Note = err.Error()
		return o
	}
	want, _ := mon.RefOutcome(db, h.RS)
	if _, issues := mon.CheckRepo(db, h.RS, sc.needHead); len(issues) > 0 {
		o.Violate("repo-invariant/"+issues[0].Clause+"/wrgl-"+p.Op+"/uninterrupted", "%s", issues[0].Detail)
	}
	wantCommits := reachableCount(db, h)
	h.Close()
	post := map[string]bool{}
	for k := 1; k <= n; k++ {
		dir := filepath.Join(base, fmt.Sprintf("k%d", k))
		copyDir(tmpl, dir)
		how := fmt.Sprintf("%s before store write %d/%d (%s)", p.Fault, k, n, strings.Join(strings.Fields(writes[k-1])[1:2], ""))
		envv := "VERIF_CRASH_AT=" + strconv.Itoa(k)
		if p.Fault == "fail" {
			envv = "VERIF_FAIL_AT=" + strconv.Itoa(k)
		}
		r := runWrglProc(env, dir, []string{envv}, sc.args...)
		o.Ev("oracle_evaluations", 1)
		o.Ev("fault_points_visited", 1)
		if r.timedOut {
			o.Violate("hang/wrgl-"+class, "%s: the command did not return within 120 s\n%s", how, tailStr(r.out, 3000))
			os.RemoveAll(dir)
			continue
		}
		if p.Fault == "crash" && !r.killed {
			// the write sequence can differ between runs (map order, worker order): a shorter run simply completes
			if r.exit != 0 {
				o.Violate("unexpected-exit/wrgl-"+class, "%s: exit %d: %s", how, r.exit, tailStr(r.out, 1500))
			}
			o.Ev("crash_point_not_reached", 1)
		}
		if p.Fault == "fail" {
			if strings.Contains(r.out, "panic:") || strings.Contains(r.out, "fatal error:") {
				o.Violate("panic-on-store-error/wrgl-"+class, "%s: %s", how, tailStr(r.out, 3000))
				os.RemoveAll(dir)
				continue
			}
			if r.exit == 0 {
				o.Violate("store-error-swallowed/wrgl-"+class, "%s: the command reported success although a store write failed: %s", how, tailStr(r.out, 800))
			}
		}
		db, h, err := openRepoStores(dir)
		if err != nil {
			o.Violate("repo-does-not-reopen/wrgl-"+class, "%s: %v", how, err)
			os.RemoveAll(dir)
			continue
		}
		facts, issues := mon.CheckRepo(db, h.RS, sc.needHead)
		for _, is := range issues {
			o.Violate("repo-invariant/"+is.Clause+"/wrgl-"+class, "%s: %s", how, is.Detail)
		}
		post[fmt.Sprintf("%d commits %d tables %d refs", facts.Commits, facts.Tables, len(facts.Refs))] = true
		h.Close()
		if sc.afterFault != nil {
			ra := runWrglProc(env, dir, nil, sc.afterFault...)
			if ra.exit != 0 {
				o.Violate("command-after-fault-fails/wrgl-"+class, "%s: then `wrgl %s`: exit %d: %s", how, strings.Join(sc.afterFault, " "), ra.exit, tailStr(ra.out, 800))
			}
			if db, h, err := openRepoStores(dir); err == nil {
				_, issues := mon.CheckRepo(db, h.RS, sc.needHead)
				for _, is := range issues {
					o.Violate("repo-invariant/"+is.Clause+"/wrgl-"+class+"/after-"+sc.afterFault[0], "%s, then `wrgl %s`: %s", how, strings.Join(sc.afterFault, " "), is.Detail)
				}
				h.Close()
			}
			o.Ev("commands_run_on_the_interrupted_repository", 1)
		}
		// the same operation again must succeed and reach the uninterrupted outcome
		r2 := runWrglProc(env, dir, nil, sc.args...)
		if r2.exit != 0 {
			o.Violate("rerun-fails/wrgl-"+class, "%s: running the command again: exit %d: %s", how, r2.exit, tailStr(r2.out, 1500))
			os.RemoveAll(dir)
			continue
		}
		db, h, err = openRepoStores(dir)
		if err != nil {
			o.Violate("repo-does-not-reopen/wrgl-"+class, "%s (after re-run): %v", how, err)
			os.RemoveAll(dir)
			continue
		}
		got, _ := mon.RefOutcome(db, h.RS)
		if d := diffOutcome(want, got); d != "" {
			o.Violate("rerun-outcome-differs/wrgl-"+class, "%s: after the re-run %s", how, d)
		} else if rc := reachableCount(db, h); rc != wantCommits {
			o.Violate("rerun-extra-commits/wrgl-"+class, "%s: %d commits reachable after the re-run, %d after an uninterrupted run", how, rc, wantCommits)
		}
		if _, issues := mon.CheckRepo(db, h.RS, sc.needHead); len(issues) > 0 {
			o.Violate("repo-invariant/"+issues[0].Clause+"/wrgl-"+class+"/after-rerun", "%s: %s", how, issues[0].Detail)
		}
		h.Close()
		os.RemoveAll(dir)
		o.Ev("reruns", 1)
	}
	o.Ev("distinct_post_fault_states", int64(len(post)))
	o.Key("cli/%s/%s/rows%d/w%d", p.Op, p.Fault, p.Rows, p.Workers)
	kinds := map[string]int{}
	for _, w := range writes {
		f := strings.Fields(w)
		if len(f) > 1 {
			kinds[f[1]]++
		}
	}
	o.Sample = map[string]interface{}{"driver": "cli", "op": p.Op, "fault": p.Fault, "rows": p.Rows, "command": sc.args, "writes": n, "write_kinds": kinds, "outcome": want}
	return o
}

func reachableCount(db objects.Store, h *mon.RepoHandle) int {
	refs, err := h.RS.Filter(nil, nil)
	if err != nil {
		return -1
	}
	seen := map[string]bool{}
	var stack [][]byte
	for _, v := range refs {
		stack = append(stack, v)
	}
	for len(stack) > 0 {
		s := stack[len(stack)-1]
		stack = stack[:len(stack)-1]
		if seen[string(s)] {
			continue
		}
		seen[string(s)] = true
		if c, err := objects.GetCommit(db, s); err == nil {
			stack = append(stack, c.Parents...)
		}
	}
	return len(seen)
}

func diffOutcome(want, got map[string]string) string {
	var names []string
	for n := range want {
		names = append(names, n)
	}
	for n := range got {
		if _, ok := want[n]; !ok {
			names = append(names, n)
		}
	}
	sort.Strings(names)
	for _, n := range names {
		if want[n] != got[n] {
			return fmt.Sprintf("ref %s has history shape %q, an uninterrupted run gives %q", n, got[n], want[n])
		}
	}
	return ""
}

func tailStr(s string, n int) string {
	if len(s) > n {
		return "…" + s[len(s)-n:]
	}
	return s
}

// ---- in-process drivers over recording stores ----

func c13PkgIngest(c *fw.Case, env *fw.Env, o *fw.Obs, p *c13Params) *fw.Obs {
	rng := c.Rand()
	s := tblSpec{Rows: p.Rows, NCols: 3, Style: int(gen.CellSimple), PK: []int{0}, Unique: true, TableSeed: rng.Int63()}
	t := s.build()
	csvBytes := gen.ToCSV(t, 0)
	cfg := mon.IngestCfg{PK: []string{"c0"}, Workers: p.Workers, RunSize: 1 << 30}
	rec := mon.NewMemStore()
	rec.Record = true
	baseSum, err, pn := mon.Ingest(rec, csvBytes, cfg)
	if err != nil || pn != "" {
		o.Violate("uninterrupted-run-fails/IngestTable", "%v %s", err, pn)
		return o
	}
	n := len(rec.Log)
	o.Ev("write_sequence_length", int64(n))
	class := "IngestTable/" + p.Fault
	for k := 0; k <= n; k++ {
		how := fmt.Sprintf("%s at store write %d/%d", p.Fault, k+1, n)
		var st *mon.MemStore
		if p.Fault == "crash" {
			st = mon.NewMemStore()
			st.Apply(rec.Log[:k])
		} else {
			if k == n {
				break
			}
			st = mon.NewMemStore()
			st.FailAt = int64(k + 1)
			var ferr error
			var fpn string
			done := make(chan struct{})
			go func() {
				defer close(done)
				_, ferr, fpn = mon.Ingest(st, csvBytes, cfg)
			}()
			select {
			case <-done:
			case <-time.After(60 * time.Second):
				o.Violate("hang/"+class, "%s: IngestTable did not return within 60 s after an injected store error", how)
				return o
			}
			if fpn != "" {
				o.Violate("panic-on-store-error/"+class, "%s: %s", how, fpn)
				continue
			}
			if ferr == nil {
				o.Violate("store-error-swallowed/"+class, "%s: IngestTable returned no error", how)
			}
			st.FailAt = 0
		}
		o.Ev("oracle_evaluations", 1)
		o.Ev("fault_points_visited", 1)
		tkeys, _ := objects.GetAllTableKeys(st)
		for _, tk := range tkeys {
			if _, is := mon.CheckTable(st, tk, mon.CheckOpts{}); len(is) > 0 {
				o.Violate("repo-invariant/present-table-unusable/"+is[0].Clause+"/"+class, "%s: table %x is reported present but: %s", how, tk, is[0].Detail)
				break
			}
		}
		sum, err, pn := mon.Ingest(st, csvBytes, cfg)
		if err != nil || pn != "" {
			o.Violate("rerun-fails/"+class, "%s: %v %s", how, err, pn)
			continue
		}
		if !bytes.Equal(sum, baseSum) {
			o.Violate("rerun-outcome-differs/"+class, "%s: re-run gives table %x, uninterrupted %x", how, sum, baseSum)
		}
		if _, is := mon.CheckTable(st, sum, mon.CheckOpts{}); len(is) > 0 {
			o.Violate("repo-invariant/present-table-unusable/"+is[0].Clause+"/"+class+"/after-rerun", "%s: %s", how, is[0].Detail)
		}
		o.Ev("reruns", 1)
	}
	o.Key("pkg-ingest/%s/rows%d/w%d", p.Fault, p.Rows, p.Workers)
	o.Sample = map[string]interface{}{"driver": "pkg-ingest", "fault": p.Fault, "rows": p.Rows, "workers": p.Workers, "writes": n}
	return o
}

func c13PkgReceive(c *fw.Case, env *fw.Env, o *fw.Obs, p *c13Params) *fw.Obs {
	rng := c.Rand()
	src := mon.NewMemStore()
	h, err := buildHistory(src, rng, histOpts{N: 3 + rng.Intn(3), BaseRows: p.Rows})
	if err != nil {
		o.Status = "inconclusive"
		o.Note = err.Error()
		return o
	}
	pre := mon.NewMemStore()
	h.copyCommitClosure(src, pre, 0)
	var toSend []*objects.Commit
	tables := map[string]struct{}{}
	var expected [][]byte
	for i := 1; i < len(h.sums); i++ {
		cm, _ := objects.GetCommit(src, h.sums[i])
		toSend = append(toSend, cm)
		tables[string(h.tables[i])] = struct{}{}
		expected = append(expected, h.sums[i])
	}
	transfer := func(dst *mon.MemStore) error {
		sender, err := apiutils.NewObjectSender(src, toSend, tables, [][]byte{h.sums[0]}, 2000)
		if err != nil {
			return err
		}
		recv := apiutils.NewObjectReceiver(dst, expected, logr.Discard())
		_, _, err = sendAll(sender, recv, nil, nil)
		return err
	}
	rec := pre.Clone()
	rec.Record = true
	if err := transfer(rec); err != nil {
		o.Violate("uninterrupted-run-fails/ObjectReceiver", "%v", err)
		return o
	}
	n := len(rec.Log)
	o.Ev("write_sequence_length", int64(n))
	final := storeKeys(rec.Snapshot())
	class := "ObjectReceiver/" + p.Fault
	for k := 0; k <= n; k++ {
		how := fmt.Sprintf("%s at store write %d/%d", p.Fault, k+1, n)
		st := pre.Clone()
		if p.Fault == "crash" {
			st.Apply(rec.Log[:k])
		} else {
			if k == n {
				break
			}
			st.FailAt = int64(k + 1)
			var ferr error
			if pn := fw.Catch(func() { ferr = transfer(st) }); pn != "" {
				o.Violate("panic-on-store-error/"+class, "%s: %s", how, pn)
				continue
			}
			if ferr == nil {
				o.Violate("store-error-swallowed/"+class, "%s: the transfer reported success", how)
			}
			st.FailAt = 0
		}
		o.Ev("oracle_evaluations", 1)
		o.Ev("fault_points_visited", 1)
		// invariants: commits have parents; present tables usable
		ckeys, _ := objects.GetAllCommitKeys(st)
		for _, ck := range ckeys {
			cm, err := objects.GetCommit(st, ck)
			if err != nil {
				continue
			}
			for _, pp := range cm.Parents {
				if !objects.CommitExist(st, pp) {
					o.Violate("repo-invariant/commit-without-parent/"+class, "%s: commit %x stored without parent %x", how, ck, pp)
				}
			}
		}
		tkeys, _ := objects.GetAllTableKeys(st)
		for _, tk := range tkeys {
			if _, is := mon.CheckTable(st, tk, mon.CheckOpts{}); len(is) > 0 {
				o.Violate("repo-invariant/present-table-unusable/"+is[0].Clause+"/"+class, "%s: table %x is reported present but: %s", how, tk, is[0].Detail)
				break
			}
		}
		if err := transfer(st); err != nil {
			o.Violate("rerun-fails/"+class, "%s: %v", how, err)
			continue
		}
		if storeKeys(st.Snapshot()) != final {
			o.Violate("rerun-outcome-differs/"+class, "%s: the destination's key set after the re-run differs from an uninterrupted transfer", how)
		}
		o.Ev("reruns", 1)
	}
	o.Key("pkg-receive/%s/rows%d/%d", p.Fault, p.Rows, c.Seed%1000)
	o.Sample = map[string]interface{}{"driver": "pkg-receive", "fault": p.Fault, "commits_sent": len(toSend), "writes": n}
	return o
}

func c13PkgPrune(c *fw.Case, env *fw.Env, o *fw.Obs, p *c13Params) *fw.Obs {
	rng := c.Rand()
	pre := mon.NewMemStore()
	h, err := buildHistory(pre, rng, histOpts{N: 4 + rng.Intn(5), BaseRows: p.Rows, Roots: 1})
	if err != nil {
		o.Status = "inconclusive"
		o.Note = err.Error()
		return o
	}
	rs, sdb, err := mon.NewMemRefStore()
	if err != nil {
		o.Status = "inconclusive"
		o.Note = err.Error()
		return o
	}
	defer sdb.Close()
	keep := rng.Intn(len(h.sums))
	rs.Set("heads/main", h.sums[keep])
	rec := pre.Clone()
	rec.Record = true
	if err := prune.Prune(rec, rs, nil); err != nil {
		o.Violate("uninterrupted-run-fails/prune.Prune", "%v", err)
		return o
	}
	n := len(rec.Log)
	o.Ev("write_sequence_length", int64(n))
	// outcome of a prune: which commits and tables exist (index/profile objects orphaned by an
	// interrupted run are garbage, not part of the outcome the statement talks about)
	comTbl := func(m map[string][]byte) string {
		var ks []string
		for k := range m {
			if strings.HasPrefix(k, "com/") || strings.HasPrefix(k, "tbl/") {
				ks = append(ks, k)
			}
		}
		sort.Strings(ks)
		return strings.Join(ks, "\x00")
	}
	final := comTbl(rec.Snapshot())
	class := "prune.Prune/" + p.Fault
	for k := 0; k <= n; k++ {
		how := fmt.Sprintf("%s at store write %d/%d", p.Fault, k+1, n)
		st := pre.Clone()
		if p.Fault == "crash" {
			st.Apply(rec.Log[:k])
		} else {
			if k == n {
				break
			}
			st.FailAt = int64(k + 1)
			var ferr error
			if pn := fw.Catch(func() { ferr = prune.Prune(st, rs, nil) }); pn != "" {
				o.Violate("panic-on-store-error/"+class, "%s: %s", how, pn)
				continue
			}
			if ferr == nil {
				o.Violate("store-error-swallowed/"+class, "%s: Prune reported success", how)
			}
			st.FailAt = 0
		}
		o.Ev("oracle_evaluations", 1)
		o.Ev("fault_points_visited", 1)
		if _, issues := mon.CheckRepo(st, rs, true); len(issues) > 0 {
			o.Violate("repo-invariant/"+issues[0].Clause+"/"+class, "%s: %s", how, issues[0].Detail)
		}
		if pn := fw.Catch(func() { err = prune.Prune(st, rs, nil) }); pn != "" || err != nil {
			o.Violate("rerun-fails/"+class, "%s: %v %s", how, err, pn)
			continue
		}
		if comTbl(st.Snapshot()) != final {
			o.Violate("rerun-outcome-differs/"+class, "%s: commits/tables after the re-run differ from an uninterrupted prune", how)
		}
		if len(st.Snapshot()) != len(rec.Snapshot()) {
			o.Ev("prune_reruns_leaving_orphan_index_objects", 1)
		}
		o.Ev("reruns", 1)
	}
	o.Key("pkg-prune/%s/rows%d/%d", p.Fault, p.Rows, c.Seed%1000)
	o.Sample = map[string]interface{}{"driver": "pkg-prune", "fault": p.Fault, "commits": len(h.sums), "kept_head": keep, "writes": n}
	return o
}

func c13Run(c *fw.Case, env *fw.Env) *fw.Obs {
	o := fw.NewObs(c)
	var p c13Params
	c.P(&p)
	switch p.Driver {
	case "cli":
		return c13CLI(c, env, o, &p)
	case "pkg-ingest":
		return c13PkgIngest(c, env, o, &p)
	case "pkg-receive":
		return c13PkgReceive(c, env, o, &p)
	case "pkg-prune":
		return c13PkgPrune(c, env, o, &p)
	}
	return o
}

var _ = io.EOF

func init() {
	fw.Register(&fw.Property{
		ID:          "C13",
		Level:       "fault_enumeration",
		Rule:        "for every scenario the operation is first run uninterrupted to learn its ordered sequence of persistent writes (verifhook.BeforeWrite in the badger and SQL stores of the real `wrgl` binary; a recording store in-process), then EVERY position k of that sequence is visited: the process is SIGKILLed before write k (or write k returns an injected error), the repository is reopened and the invariant monitor runs (refs resolve, commits have parents, every table reported present passes the structural monitor, heads have their table), and the same command is run again and must reach the uninterrupted outcome (ref -> table ids and history shape, no extra reachable commits); scenarios: wrgl commit (new/existing branch, data another branch already holds, reverted data), merge (ff, no-ff, real), prune, transaction commit, fetch and pull (against the reference server running in the worker), a commit followed by prune on the interrupted repository, as real subprocesses, and ingest.IngestTable, ObjectReceiver.Receive over several packfiles, prune.Prune in-process with 1- and 3-block tables; distinct_nontrivial = distinct (driver, operation, fault kind, size) scenarios",
		Assumptions: []string{"a single badger Update / SQL transaction is atomic and durable against process death", "crashes inside a write, lost acknowledged writes and OS/power failures are not modelled", "the reference server (harness/refserver) is trusted harness logic"},
		Workers:     8,
		Gen: func(tier string, seed int64) []fw.Case {
			l := fw.NewCaseList("C13", tier, seed)
			ops := []string{"commit-new", "commit-existing", "commit-shared", "commit-revert", "commit-then-prune", "merge-ff", "merge-noff", "merge-real", "prune", "tx-commit", "fetch", "pull"}
			for _, op := range ops {
				for _, fault := range []string{"crash", "fail"} {
					sizes := []int{5}
					if tier == "thorough" {
						sizes = []int{5, 300, 600, 1200}
					} else if op == "commit-new" || op == "merge-real" || op == "commit-then-prune" {
						sizes = []int{5, 600}
					}
					for _, rows := range sizes {
						workers := []int{1}
						if tier == "thorough" {
							workers = []int{1, 4, 8}
						}
						if op == "fetch" || op == "pull" || op == "commit-revert" {
							workers = workers[:1]
						}
						for _, w := range workers {
							l.Add("cli", c13Params{Driver: "cli", Op: op, Rows: rows, Fault: fault, Workers: w}, 0)
						}
					}
				}
			}
			reps := l.N(1, 24)
			for r := 0; r < reps; r++ {
				for _, fault := range []string{"crash", "fail"} {
					for _, rows := range []int{5, 600} {
						l.Add("pkg", c13Params{Driver: "pkg-ingest", Rows: rows, Fault: fault, Workers: []int{1, 4, 8}[r%3]}, 0)
						l.Add("pkg", c13Params{Driver: "pkg-receive", Rows: rows, Fault: fault}, 0)
						l.Add("pkg", c13Params{Driver: "pkg-prune", Rows: rows, Fault: fault}, 0)
					}
				}
			}
			return l.Cases
		},
		CaseTimeoutS: 3000,
		Run:          c13Run,
	})
}
