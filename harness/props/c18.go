package props

import (
	"bytes"
	"fmt"
	"io"
	"math/rand"
	"strings"
	"testing/iotest"
	"time"

	"github.com/klauspost/compress/s2"
	"github.com/wrgl/wrgl/pkg/encoding"
	"github.com/wrgl/wrgl/pkg/encoding/packfile"
	"github.com/wrgl/wrgl/pkg/encoding/pktline"
	"github.com/wrgl/wrgl/pkg/misc"
	"github.com/wrgl/wrgl/pkg/objects"

	"verif/fw"
	"verif/gen"
	"verif/mon"
)

// C18 — decoding a stream does not depend on how the transport chunks it.

type c18Params struct {
	Stream string `json:"stream"` // packfile | pktline | commit | table | block | blockindex | profile | uintlist | strlist
	Size   int    `json:"size"`
}

// seededChunker returns 1..max bytes per Read.
type seededChunker struct {
	r   io.Reader
	rng *rand.Rand
	max int
}

func (c *seededChunker) Read(p []byte) (int, error) {
	if len(p) == 0 {
		return 0, nil
	}
	n := 1 + c.rng.Intn(c.max)
	if n > len(p) {
		n = len(p)
	}
	return c.r.Read(p[:n])
}

// zeroThenData returns (0, nil) a few times before every real read (allowed by io.Reader, discouraged).
type zeroThenData struct {
	r io.Reader
	k int
}

func (z *zeroThenData) Read(p []byte) (int, error) {
	z.k++
	if z.k%3 != 0 {
		return 0, nil
	}
	return z.r.Read(p)
}

// cutAt delivers the first `at` bytes in one read, then the rest.
type cutAt struct {
	b   []byte
	at  int
	pos int
}

func (c *cutAt) Read(p []byte) (int, error) {
	if c.pos >= len(c.b) {
		return 0, io.EOF
	}
	end := len(c.b)
	if c.pos < c.at && c.at < len(c.b) {
		end = c.at
	}
	n := copy(p, c.b[c.pos:end])
	c.pos += n
	return n, nil
}

// lastWithEOF returns the final bytes together with io.EOF.
type lastWithEOF struct {
	b   []byte
	pos int
}

func (l *lastWithEOF) Read(p []byte) (int, error) {
	if l.pos >= len(l.b) {
		return 0, io.EOF
	}
	n := copy(p, l.b[l.pos:])
	l.pos += n
	if l.pos >= len(l.b) {
		return n, io.EOF
	}
	return n, nil
}

type chunkerFn struct {
	name string
	mk   func(b []byte) io.Reader
}

func c18Chunkers(rng *rand.Rand, n int, cuts []int) []chunkerFn {
	cs := []chunkerFn{
		{"one-byte", func(b []byte) io.Reader { return iotest.OneByteReader(bytes.NewReader(b)) }},
		{"half", func(b []byte) io.Reader { return iotest.HalfReader(bytes.NewReader(b)) }},
		{"data+err", func(b []byte) io.Reader { return iotest.DataErrReader(bytes.NewReader(b)) }},
		{"last+eof", func(b []byte) io.Reader { return &lastWithEOF{b: b} }},
		{"zero-then-data", func(b []byte) io.Reader { return &zeroThenData{r: bytes.NewReader(b)} }},
		{"one-byte+data-err", func(b []byte) io.Reader { return iotest.DataErrReader(iotest.OneByteReader(bytes.NewReader(b))) }},
	}
	for i := 0; i < n; i++ {
		seed := rng.Int63()
		max := []int{2, 3, 7, 16, 100}[i%5]
		cs = append(cs, chunkerFn{fmt.Sprintf("random-%d", max), func(b []byte) io.Reader {
			return &seededChunker{r: bytes.NewReader(b), rng: rand.New(rand.NewSource(seed)), max: max}
		}})
	}
	for _, at := range cuts {
		at := at
		cs = append(cs, chunkerFn{fmt.Sprintf("cut@%d", at), func(b []byte) io.Reader { return &cutAt{b: b, at: at} }})
	}
	return cs
}

// c18Decode decodes the whole stream and returns a canonical rendering of what was decoded plus the terminal condition.
func c18Decode(stream string, r io.Reader) (out string, err error) {
	defer func() {
		if rec := recover(); rec != nil {
			err = fmt.Errorf("panic: %v", rec)
		}
	}()
	var sb bytes.Buffer
	switch stream {
	case "packfile":
		pr, e := packfile.NewPackfileReader(io.NopCloser(r))
		if e != nil {
			return "", e
		}
		for i := 0; i < 100000; i++ {
			ot, b, e := pr.ReadObject()
			if ot != 0 || len(b) > 0 {
				fmt.Fprintf(&sb, "%d:%x;", ot, meowSum(b))
			}
			if e != nil {
				if e == io.EOF {
					return sb.String(), nil
				}
				return sb.String(), e
			}
		}
		return sb.String(), fmt.Errorf("no end")
	case "pktline":
		p := encoding.NewParser(r)
		for i := 0; i < 100000; i++ {
			s, e := pktline.ReadPktLine(p)
			if e != nil {
				if e == io.EOF {
					return sb.String(), nil
				}
				return sb.String(), e
			}
			fmt.Fprintf(&sb, "%q;", s)
		}
		return sb.String(), fmt.Errorf("no end")
	case "commit", "commit-long":
		_, c, e := objects.ReadCommitFrom(r)
		if e != nil {
			return "", e
		}
		return fmt.Sprintf("%x|%s|%s|%d|%s|%x", c.Table, c.AuthorName, c.AuthorEmail, c.Time.Unix(), c.Message, c.Parents), nil
	case "table":
		_, t, e := objects.ReadTableFrom(r)
		if e != nil {
			return "", e
		}
		return fmt.Sprintf("%q|%v|%d|%x|%x", t.Columns, t.PK, t.RowsCount, t.Blocks, t.BlockIndices), nil
	case "block":
		_, blk, e := objects.ReadBlockFrom(r)
		if e != nil {
			return "", e
		}
		return fmt.Sprintf("%q", blk), nil
	case "blockindex":
		_, idx, e := objects.ReadBlockIndex(r)
		if e != nil {
			return "", e
		}
		var b bytes.Buffer
		idx.WriteTo(&b)
		return fmt.Sprintf("%x", b.Bytes()), nil
	case "profile":
		tp := &objects.TableProfile{}
		if _, e := tp.ReadFrom(r); e != nil {
			return "", e
		}
		return normProfile(tp), nil
	case "uintlist":
		_, sl, e := objects.NewUintListDecoder(false).Read(r)
		if e != nil {
			return "", e
		}
		return fmt.Sprint(sl), nil
	case "strlist":
		_, sl, e := objects.NewStrListDecoder(false).Read(r)
		if e != nil {
			return "", e
		}
		return fmt.Sprintf("%q", sl), nil
	case "strlist-bytes":
		n, b, e := objects.NewStrListDecoder(false).ReadBytes(r)
		if e != nil {
			return "", e
		}
		return fmt.Sprintf("%d:%x", n, b), nil
	}
	return "", fmt.Errorf("unknown stream")
}

func c18Stream(stream string, size int, rng *rand.Rand) (data []byte, cuts []int) {
	switch stream {
	case "packfile":
		var buf bytes.Buffer
		pw, _ := packfile.NewPackfileWriter(&buf)
		cuts = append(cuts, 1, 3, 4, 5, 7, 8, 9)
		for i := 0; i < size; i++ {
			var obj []byte
			switch rng.Intn(4) {
			case 0:
				obj = make([]byte, 1+rng.Intn(3))
			case 1:
				obj = make([]byte, 100000+rng.Intn(1000))
			default:
				obj = make([]byte, 10+rng.Intn(3000))
			}
			rng.Read(obj)
			start := buf.Len()
			pw.WriteObject(1+rng.Intn(3), obj)
			cuts = append(cuts, start+1, start+2, start+3)
		}
		return buf.Bytes(), cuts
	case "pktline":
		var buf bytes.Buffer
		b := misc.NewBuffer(nil)
		for i := 0; i < size; i++ {
			s := ""
			if rng.Intn(4) > 0 {
				s = gen.Cell(rng, gen.CellSimple) + " " + gen.Cell(rng, gen.CellSimple)
			}
			if rng.Intn(4) == 0 {
				// a long payload: delivered in hundreds of pieces by the small chunkers
				s = strings.Repeat(s+"~", 1+(100+rng.Intn(3000))/(len(s)+1))
			}
			start := buf.Len()
			pktline.WritePktLine(&buf, b, s)
			cuts = append(cuts, start+1, start+2, start+4, start+5)
		}
		return buf.Bytes(), cuts
	}
	corpusName := map[string]string{"commit": "commit", "blockindex": "blockindex", "profile": "profile", "uintlist": "uintlist", "strlist": "strlist-read", "strlist-bytes": "strlist-read"}
	switch stream {
	case "commit-long":
		// text fields far longer than any chunk: 102 bytes is the first length that takes more than 101 one-byte reads
		lens := []int{0, 20, 101, 102, 300, 5000, 65535}
		cm := &objects.Commit{Table: rand16(rng), AuthorName: strings.Repeat("n", lens[(size/7)%7]), AuthorEmail: "e@x", Time: time.Unix(1600000000+int64(size), 0), Message: strings.Repeat("m", lens[size%7])}
		for i := 0; i < size%3; i++ {
			cm.Parents = append(cm.Parents, rand16(rng))
		}
		var buf bytes.Buffer
		cm.WriteTo(&buf)
		data = buf.Bytes()
	case "table":
		names := []string{"id", "a", gen.Cell(rng, gen.CellHostile)}
		if size%2 == 1 {
			names = append(names, strings.Repeat("long column name ", 8+rng.Intn(40)))
		}
		t := objects.NewTable(names, []uint32{0})
		t.RowsCount = uint32(size * 255)
		for i := 0; i < size; i++ {
			t.Blocks = append(t.Blocks, rand16(rng))
			t.BlockIndices = append(t.BlockIndices, rand16(rng))
		}
		var buf bytes.Buffer
		t.WriteTo(&buf)
		data = buf.Bytes()
	case "block":
		rows := make([][]string, 1+size%255)
		for i := range rows {
			rows[i] = []string{gen.Cell(rng, gen.CellHostile), gen.Cell(rng, gen.CellHostile), fmt.Sprint(i)}
		}
		var buf bytes.Buffer
		objects.WriteBlockTo(objects.NewStrListEncoder(true), &buf, rows)
		data = buf.Bytes()
	default:
		c := c17Corpus(corpusName[stream], rng)
		data = c[size%len(c)]
	}
	for i := 1; i < len(data) && i < 40; i++ {
		cuts = append(cuts, i)
	}
	return data, cuts
}

func c18Run(c *fw.Case, env *fw.Env) *fw.Obs {
	o := fw.NewObs(c)
	var p c18Params
	c.P(&p)
	rng := c.Rand()
	if p.Stream == "http" {
		return c18HTTP(c, o, &p, rng)
	}
	data, cuts := c18Stream(p.Stream, p.Size, rng)
	want, werr := c18Decode(p.Stream, bytes.NewReader(data))
	if werr != nil {
		o.Violate("whole-buffer-decode-fails/"+p.Stream, "valid %d-byte stream does not decode from a bytes.Reader: %v", len(data), werr)
		return o
	}
	for _, ch := range c18Chunkers(rng, 10, cuts) {
		got, err := c18Decode(p.Stream, ch.mk(data))
		o.Ev("oracle_evaluations", 1)
		o.Ev("pairs_"+p.Stream, 1)
		o.Set("chunkers", chunkerFamily(ch.name))
		if err != nil {
			o.Violate("spurious-error/"+p.Stream+"/"+chunkerFamily(ch.name), "%d-byte %s stream under chunker %s: %v (whole-buffer decode succeeds)", len(data), p.Stream, ch.name, err)
			if len(o.Viols) > 5 {
				break
			}
			continue
		}
		if got != want {
			o.Violate("decoded-value-differs/"+p.Stream+"/"+chunkerFamily(ch.name), "%d-byte %s stream under chunker %s decodes to a different value (%d vs %d rendered bytes)", len(data), p.Stream, ch.name, len(got), len(want))
			if len(o.Viols) > 5 {
				break
			}
		}
	}
	o.Ev("split_points_inside_headers", int64(len(cuts)))
	o.Key("%s/%d/%d", p.Stream, p.Size, len(data))
	o.Sample = map[string]interface{}{"stream": p.Stream, "bytes": len(data), "chunkings": o.Events["oracle_evaluations"], "header_cuts": len(cuts)}
	return o
}

func chunkerFamily(name string) string {
	for i, c := range name {
		if c == '-' && i > 0 && (name[:i] == "random") {
			return "random"
		}
		if c == '@' {
			return name[:i]
		}
	}
	return name
}

var _ = s2.Decode
var _ = mon.EncodeStrList

func init() {
	fw.Register(&fw.Property{
		ID:          "C18",
		Level:       "exploration",
		Rule:        "valid streams (packfiles of 1..20 objects incl. 1-byte and 100 KiB objects, pkt-line sequences incl. flush packets, encoded commit (text fields up to 65535 bytes), pkt-lines up to 3 KB, table of 0..600 blocks with column names up to 800 bytes, block, block index, profile, uint list, string list) are decoded from a bytes.Reader and then under every chunker: one byte per read, half reads, data together with the error, last bytes together with io.EOF, (0,nil) reads before data, 10 seeded random chunk sizes, and a cut exactly after each of the first header bytes / inside every object header; the decoded value and terminal condition must equal the whole-buffer decode; the answers of /upload-pack/ (negotiation JSON with 0..1000 acks, packfile), /objects/ and /refs/ read by the real client over HTTP while the server writes them whole, byte by byte, in two pieces or in random flushed pieces - plainly, under a gzip content encoding that the client's transport undoes, and over HTTP/2 on TLS; distinct_nontrivial = distinct (stream kind, size, byte length)",
		Assumptions: []string{"readers that return (0,nil) forever violate io.Reader's contract and are not used", "HTTP answers are produced by an httptest server in this process and read by wrgl's own client over the loopback interface"},
		Gen: func(tier string, seed int64) []fw.Case {
			l := fw.NewCaseList("C18", tier, seed)
			rng := l.Rng()
			reps := l.N(10, 600)
			for r := 0; r < reps; r++ {
				l.Add("packfile", c18Params{Stream: "packfile", Size: 1 + rng.Intn(20)}, 0)
				l.Add("pktline", c18Params{Stream: "pktline", Size: 1 + rng.Intn(12)}, 0)
				for _, st := range []string{"commit", "commit-long", "block", "blockindex", "profile", "uintlist", "strlist", "strlist-bytes"} {
					l.Add(st, c18Params{Stream: st, Size: rng.Intn(300)}, 0)
				}
				l.Add("table", c18Params{Stream: "table", Size: []int{0, 1, 3, 40, 600}[rng.Intn(5)]}, 0)
				l.Add("http", c18Params{Stream: "http", Size: r + rng.Intn(600)*6}, 0)
			}
			return l.Cases
		},
		Run: c18Run,
	})
}
