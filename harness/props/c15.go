package props

import (
	"bytes"
	"errors"
	"fmt"
	"io"
	"math/rand"
	"os"
	"path/filepath"
	"sort"
	"strings"
	"time"

	"github.com/google/uuid"
	"github.com/wrgl/wrgl/pkg/ref"
	reffs "github.com/wrgl/wrgl/pkg/ref/fs"

	"verif/fw"
	"verif/mon"
)

// C15 — the ref store behaves as a map from exact names to commits with faithful logs.

type c15Params struct {
	Store string `json:"store"` // sql-mem | sql-file | fs
	Steps int    `json:"steps"`
	Hot   bool   `json:"hot,omitempty"` // two names only, mostly logged sets: logs of 50..200 entries
}

var c15TxID = uuid.MustParse("a1dbfcc4-f6da-454c-a783-f1b70d347baf")
var c15TxID2 = uuid.MustParse("a1dbfcc4-f6da-454c-a783-f1b70d347bAF")

var c15NamesSQL = []string{
	"heads/main", "heads/Main", "heads/ma_n", "heads/ma%n", "heads/maXn", "heads/mainX", "heads/m",
	"remotes/a_b/x", "remotes/aXb/x", "remotes/A_B/x", "remotes/a%b/x", "remotes/a/x", "remotes/a/b/c", "remotes/a_b/y/z", "remotes/a_bc/x",
	"remotes/remote/x", "remotes/s/x", "remotes/e/remotes", "remotes/remotes/s",
	"remotes/caf\u00e9/x", "remotes/caf\u00e9/y", "remotes/\u539f\u70b9/main", "heads/\u00fcn\u00ef",
	"tags/v1", "tags/V1", "tags/v_1",
	"txs/" + "a1dbfcc4-f6da-454c-a783-f1b70d347baf" + "/m", "txs/" + "a1dbfcc4-f6da-454c-a783-f1b70d347baf" + "/n", "txs/" + "a1dbfcc4-f6da-454c-a783-f1b70d347bae" + "/m",
	"refs_x/y", "refsXx/y",
}

// the file store keeps one file per name: no name may be a path prefix of another
var c15NamesFS = []string{
	"heads/main", "heads/Main", "heads/ma_n", "heads/ma%n", "heads/mainX",
	"remotes/a_b/x", "remotes/aXb/x", "remotes/A_B/x", "remotes/a/x", "remotes/a_b/y",
	"remotes/remote/x", "remotes/s/x", "remotes/e/remotes", "remotes/remotes/s",
	"tags/v1", "tags/v_1",
}

var c15Prefixes = []string{"", "heads/", "heads/ma", "heads/ma_", "heads/ma%", "heads/main", "heads/M", "remotes/a_b/", "remotes/a%b/", "remotes/a", "remotes/a/", "remotes/A", "tags/v", "tags/", "txs/", "refs_", "r", "x", "remotes/caf", "remotes/caf\u00e9/", "remotes/\u539f", "heads/\u00fc"}

// remote names that are themselves substrings of "remotes/" or of one another are ordinary names
var c15Remotes = []string{"a_b", "aXb", "A_B", "a%b", "a", "a_", "a/b", "a_bc", "remote", "s", "e", "remotes", "fresh", "caf\u00e9", "\u539f\u70b9"}

type c15Log struct {
	Old, New    string
	Name, Email string
	Action, Msg string
	Txid        string
	Time        int64
}

type c15Model struct {
	vals map[string]string
	logs map[string][]c15Log
}

func (m *c15Model) clone() *c15Model {
	c := &c15Model{vals: map[string]string{}, logs: map[string][]c15Log{}}
	for k, v := range m.vals {
		c.vals[k] = v
	}
	for k, v := range m.logs {
		c.logs[k] = append([]c15Log(nil), v...)
	}
	return c
}

func (m *c15Model) filter(prefixes, not []string) []string {
	var r []string
	for k := range m.vals {
		ok := len(prefixes) == 0
		for _, p := range prefixes {
			if strings.HasPrefix(k, p) {
				ok = true
			}
		}
		for _, p := range not {
			if strings.HasPrefix(k, p) {
				ok = false
			}
		}
		if ok {
			r = append(r, k)
		}
	}
	sort.Strings(r)
	return r
}

func c15Val(rng *rand.Rand) []byte {
	b := make([]byte, 16)
	b[0] = byte(1 + rng.Intn(6))
	b[15] = byte(rng.Intn(3))
	return b
}

type c15Runner struct {
	o     *fw.Obs
	s     ref.Store
	m     *c15Model
	kind  string
	names []string
	trace []string
	rng   *rand.Rand
	clock int64
	hot   bool
}

func (r *c15Runner) fail(clause, f string, a ...interface{}) {
	tr := r.trace
	if len(tr) > 25 {
		tr = tr[len(tr)-25:]
	}
	r.o.Violate(clause+"/"+r.kind, "%s\nlast ops: %v", fmt.Sprintf(f, a...), tr)
}

// checkAll compares every observable of the store with the model.
func (r *c15Runner) checkAll() bool {
	for _, n := range r.names {
		v, err := r.s.Get(n)
		mv, ok := r.m.vals[n]
		r.o.Ev("oracle_evaluations", 1)
		if ok != (err == nil) || (ok && string(v) != mv) {
			r.fail("get-differs", "Get(%q) = (%x, %v), model has (%x, present=%v)", n, v, err, mv, ok)
			return false
		}
		// logs
		lr, err := r.s.LogReader(n)
		var got []c15Log
		if err == nil {
			for {
				rl, err := lr.Read()
				if err != nil {
					if !errors.Is(err, io.EOF) {
						r.fail("log-read-error", "LogReader(%q).Read: %v", n, err)
						return false
					}
					break
				}
				tx := ""
				if rl.Txid != nil {
					tx = rl.Txid.String()
				}
				got = append(got, c15Log{Old: string(rl.OldOID), New: string(rl.NewOID), Name: rl.AuthorName, Email: rl.AuthorEmail, Action: rl.Action, Msg: rl.Message, Txid: tx, Time: rl.Time.Unix()})
				if len(got) > 10000 {
					break
				}
			}
			lr.Close()
		}
		want := r.m.logs[n]
		if len(got) != len(want) {
			r.fail("log-length", "%q has %d log entries, model %d", n, len(got), len(want))
			return false
		}
		for i := range got {
			w := want[len(want)-1-i] // newest first
			g := got[i]
			if r.kind == "fs" {
				// the line format of the file store keeps no txid and the zero old value as 16 zero bytes
				w.Txid = ""
				if w.Old == "" {
					w.Old = string(make([]byte, 16))
				}
				if g.Old == "" {
					g.Old = string(make([]byte, 16))
				}
			}
			if g != w {
				cl := "log-entry"
				if g.Old != w.Old {
					cl = "log-old-value"
				} else if g.New != w.New {
					cl = "log-new-value"
				}
				r.fail(cl, "%q log entry %d (newest first) = {old %x new %x %s <%s> %s: %s tx %s t %d}, model {old %x new %x %s <%s> %s: %s tx %s t %d}", n, i, g.Old, g.New, g.Name, g.Email, g.Action, g.Msg, g.Txid, g.Time, w.Old, w.New, w.Name, w.Email, w.Action, w.Msg, w.Txid, w.Time)
				return false
			}
		}
	}
	return true
}

func (r *c15Runner) checkFilter(prefixes, not []string) bool {
	want := r.m.filter(prefixes, not)
	keys, err := r.s.FilterKey(prefixes, not)
	r.o.Ev("oracle_evaluations", 1)
	r.o.Ev("filter_calls", 1)
	if err != nil {
		r.fail("filter-error", "FilterKey(%q,%q): %v", prefixes, not, err)
		return false
	}
	if r.kind == "fs" {
		sort.Strings(keys)
	}
	if strings.Join(keys, "\x00") != strings.Join(want, "\x00") {
		r.fail("filter-not-literal-prefix", "FilterKey(%q, not %q) = %q, names literally starting with the prefix: %q", prefixes, not, keys, want)
		return false
	}
	m, err := r.s.Filter(prefixes, not)
	if err != nil {
		r.fail("filter-error", "Filter(%q,%q): %v", prefixes, not, err)
		return false
	}
	if len(m) != len(want) {
		r.fail("filter-not-literal-prefix", "Filter(%q, not %q) returned %d names, expected %q", prefixes, not, len(m), want)
		return false
	}
	for _, k := range want {
		if string(m[k]) != r.m.vals[k] {
			r.fail("filter-value", "Filter(%q)[%q] = %x, model %x", prefixes, k, m[k], r.m.vals[k])
			return false
		}
	}
	return true
}

func (r *c15Runner) mkLog(v []byte) *ref.Reflog {
	r.clock += int64(1 + r.rng.Intn(3))
	rl := &ref.Reflog{NewOID: v, AuthorName: []string{"Ann", "Bob", "Cy"}[r.rng.Intn(3)], AuthorEmail: []string{"a@x.io", "b@y.io", ""}[r.rng.Intn(3)], Action: []string{"commit", "fetch", "merge", "reset"}[r.rng.Intn(4)], Message: []string{"msg one", "second", "x"}[r.rng.Intn(3)], Time: time.Unix(r.clock, 0)}
	if r.kind != "fs" && r.rng.Intn(4) == 0 {
		id := c15TxID
		rl.Txid = &id
	}
	// a stale / arbitrary OldOID in the caller's struct must not matter: the store logs the value it held
	if r.rng.Intn(2) == 0 {
		rl.OldOID = c15Val(r.rng)
	}
	return rl
}

func (r *c15Runner) logOf(rl *ref.Reflog, old string) c15Log {
	tx := ""
	if rl.Txid != nil {
		tx = rl.Txid.String()
	}
	return c15Log{Old: old, New: string(rl.NewOID), Name: rl.AuthorName, Email: rl.AuthorEmail, Action: rl.Action, Msg: rl.Message, Txid: tx, Time: rl.Time.Unix()}
}

func (r *c15Runner) step() bool {
	rng := r.rng
	name := func() string { return r.names[rng.Intn(len(r.names))] }
	existing := func() string {
		var ks []string
		for k := range r.m.vals {
			ks = append(ks, k)
		}
		if len(ks) == 0 {
			return name()
		}
		sort.Strings(ks)
		return ks[rng.Intn(len(ks))]
	}
	before := r.m.clone()
	op := rng.Intn(16)
	if r.hot && rng.Intn(5) != 0 {
		op = 2
	}
	if r.kind == "fs" && op >= 12 {
		op = rng.Intn(12)
	}
	var err error
	expectErr := false
	errAllowed := false
	switch op {
	case 0, 1:
		n, v := name(), c15Val(rng)
		r.trace = append(r.trace, fmt.Sprintf("Set(%s,%x)", n, v[:1]))
		err = r.s.Set(n, v)
		r.m.vals[n] = string(v)
	case 2, 3, 4:
		n, v := name(), c15Val(rng)
		rl := r.mkLog(v)
		if r.kind == "fs" && rl.OldOID == nil {
			// the file store writes the caller's OldOID (wrgl's SaveRef fills it in): give it the true one
		}
		if r.kind == "fs" {
			// ref.SaveRef is the only writer for this store: it reads the old value first
			if b, e := r.s.Get(n); e == nil {
				rl.OldOID = b
			} else {
				rl.OldOID = nil
			}
		}
		r.trace = append(r.trace, fmt.Sprintf("SetWithLog(%s,%x)", n, v[:1]))
		err = r.s.SetWithLog(n, v, rl)
		old := r.m.vals[n]
		r.m.logs[n] = append(r.m.logs[n], r.logOf(rl, old))
		r.m.vals[n] = string(v)
	case 5:
		n := existing()
		if rng.Intn(4) == 0 {
			n = name()
		}
		r.trace = append(r.trace, fmt.Sprintf("Delete(%s)", n))
		err = r.s.Delete(n)
		if _, ok := r.m.vals[n]; !ok {
			errAllowed = true // deleting an absent name: error or not, nothing may change
		}
		delete(r.m.vals, n)
		delete(r.m.logs, n)
	case 6:
		a, b := existing(), name()
		r.trace = append(r.trace, fmt.Sprintf("Rename(%s,%s)", a, b))
		_, okA := r.m.vals[a]
		_, okB := r.m.vals[b]
		if r.kind == "fs" && okA && okB {
			return true // os.Rename overwrites: outside the common semantics, not generated
		}
		err = r.s.Rename(a, b)
		if !okA || okB || a == b {
			expectErr = true
		} else {
			r.m.vals[b] = r.m.vals[a]
			delete(r.m.vals, a)
			if l, ok := r.m.logs[a]; ok {
				r.m.logs[b] = l
				delete(r.m.logs, a)
			}
		}
	case 7:
		a, b := existing(), name()
		_, okA := r.m.vals[a]
		_, okB := r.m.vals[b]
		if r.kind == "fs" && (!okA || okB || len(r.m.logs[a]) == 0) {
			return true // the file store's Copy is only used on logged refs onto fresh names
		}
		r.trace = append(r.trace, fmt.Sprintf("Copy(%s,%s)", a, b))
		err = r.s.Copy(a, b)
		if !okA || okB || a == b {
			expectErr = true
		} else {
			r.m.vals[b] = r.m.vals[a]
			if l, ok := r.m.logs[a]; ok {
				r.m.logs[b] = append([]c15Log(nil), l...)
			}
		}
	case 8, 9:
		var ps, ns []string
		if r.kind == "fs" {
			ps = []string{[]string{"", "heads/", "remotes/a_b/", "remotes/a/", "tags/", "remotes/"}[rng.Intn(6)]}
			r.trace = append(r.trace, fmt.Sprintf("FilterKey(%q)", ps))
			want := r.m.filter(ps, nil)
			keys, e := r.s.FilterKey(ps, nil)
			sort.Strings(keys)
			r.o.Ev("oracle_evaluations", 1)
			r.o.Ev("filter_calls", 1)
			if e != nil || strings.Join(keys, "\x00") != strings.Join(want, "\x00") {
				r.fail("filter-not-literal-prefix", "FilterKey(%q) = %q (%v), expected %q", ps, keys, e, want)
				return false
			}
			return true
		}
		for i := rng.Intn(3); i > 0; i-- {
			ps = append(ps, c15Prefixes[rng.Intn(len(c15Prefixes))])
		}
		for i := rng.Intn(2); i > 0; i-- {
			ns = append(ns, c15Prefixes[1+rng.Intn(len(c15Prefixes)-1)])
		}
		r.trace = append(r.trace, fmt.Sprintf("Filter(%q,%q)", ps, ns))
		return r.checkFilter(ps, ns)
	case 10, 11:
		// helper listings
		rem := c15Remotes[rng.Intn(len(c15Remotes))]
		r.trace = append(r.trace, fmt.Sprintf("ListRemoteRefs(%s)", rem))
		got, e := ref.ListRemoteRefs(r.s, rem)
		r.o.Ev("oracle_evaluations", 1)
		if e != nil {
			r.fail("list-error", "ListRemoteRefs(%q): %v", rem, e)
			return false
		}
		want := map[string]string{}
		for k, v := range r.m.vals {
			if strings.HasPrefix(k, "remotes/"+rem+"/") {
				want[strings.TrimPrefix(k, "remotes/"+rem+"/")] = v
			}
		}
		if len(got) != len(want) {
			r.fail("list-not-literal-prefix", "ListRemoteRefs(%q) = %v, expected exactly %v", rem, keysOfB(got), keysOfS(want))
			return false
		}
		for k, v := range want {
			if string(got[k]) != v {
				r.fail("list-not-literal-prefix", "ListRemoteRefs(%q) = %v, expected exactly %v", rem, keysOfB(got), keysOfS(want))
				return false
			}
		}
		heads, _ := ref.ListHeads(r.s)
		nh := 0
		for k := range r.m.vals {
			if strings.HasPrefix(k, "heads/") {
				nh++
				if string(heads[strings.TrimPrefix(k, "heads/")]) != r.m.vals[k] {
					r.fail("list-heads", "ListHeads misses or misreports %q", k)
					return false
				}
			}
		}
		if nh != len(heads) {
			r.fail("list-heads", "ListHeads returned %d names, model has %d", len(heads), nh)
			return false
		}
		return true
	case 12:
		rem := c15Remotes[rng.Intn(len(c15Remotes))]
		r.trace = append(r.trace, fmt.Sprintf("DeleteAllRemoteRefs(%s)", rem))
		err = ref.DeleteAllRemoteRefs(r.s, rem)
		for k := range r.m.vals {
			if strings.HasPrefix(k, "remotes/"+rem+"/") {
				delete(r.m.vals, k)
				delete(r.m.logs, k)
			}
		}
	case 13:
		a, b := c15Remotes[rng.Intn(len(c15Remotes))], c15Remotes[rng.Intn(len(c15Remotes))]
		// renaming onto names that exist is refused by the store: generate only fresh targets
		clash := a == b
		for k := range r.m.vals {
			if strings.HasPrefix(k, "remotes/"+a+"/") {
				if _, ok := r.m.vals["remotes/"+b+"/"+strings.TrimPrefix(k, "remotes/"+a+"/")]; ok {
					clash = true
				}
			}
			// nested remotes (a and a/b) make source and target sets overlap
			if strings.HasPrefix(k, "remotes/"+b+"/") && strings.HasPrefix(k, "remotes/"+a+"/") {
				clash = true
			}
		}
		if clash || strings.HasPrefix(b+"/", a+"/") || strings.HasPrefix(a+"/", b+"/") {
			return true
		}
		r.trace = append(r.trace, fmt.Sprintf("RenameAllRemoteRefs(%s,%s)", a, b))
		err = ref.RenameAllRemoteRefs(r.s, a, b)
		for k, v := range before.vals {
			if strings.HasPrefix(k, "remotes/"+a+"/") {
				nk := "remotes/" + b + "/" + strings.TrimPrefix(k, "remotes/"+a+"/")
				r.m.vals[nk] = v
				delete(r.m.vals, k)
				if l, ok := before.logs[k]; ok {
					r.m.logs[nk] = l
					delete(r.m.logs, k)
				}
			}
		}
	case 14:
		id := c15TxID
		if rng.Intn(3) == 0 {
			id = uuid.MustParse("a1dbfcc4-f6da-454c-a783-f1b70d347bae")
		}
		r.trace = append(r.trace, fmt.Sprintf("DeleteTransactionRefs(%s)", id))
		err = ref.DeleteTransactionRefs(r.s, id)
		for k := range r.m.vals {
			if strings.HasPrefix(k, "txs/"+id.String()+"/") {
				delete(r.m.vals, k)
				delete(r.m.logs, k)
			}
		}
	case 15:
		// ref.SaveRef: the helper every command uses
		n, v := name(), c15Val(rng)
		r.clock += 2
		r.trace = append(r.trace, fmt.Sprintf("SaveRef(%s,%x)", n, v[:1]))
		t0 := time.Now().Unix()
		err = ref.SaveRef(r.s, n, v, "Ann", "a@x.io", "commit", "via SaveRef", nil)
		old := r.m.vals[n]
		r.m.logs[n] = append(r.m.logs[n], c15Log{Old: old, New: string(v), Name: "Ann", Email: "a@x.io", Action: "commit", Msg: "via SaveRef"})
		r.m.vals[n] = string(v)
		// SaveRef stamps time.Now(): read it back rather than guess it
		if lr, e := r.s.LogReader(n); e == nil {
			if rl, e := lr.Read(); e == nil {
				ts := rl.Time.Unix()
				if ts < t0-5 || ts > time.Now().Unix()+5 {
					r.fail("log-time", "SaveRef logged time %d, now is about %d", ts, t0)
					return false
				}
				r.m.logs[n][len(r.m.logs[n])-1].Time = ts
			}
			lr.Close()
		}
	}
	r.o.Ev("ops", 1)
	if expectErr {
		r.o.Ev("ops_expected_to_fail", 1)
		if err == nil {
			r.fail("missing-error", "operation %s succeeded although the plain map would refuse it", r.trace[len(r.trace)-1])
			return false
		}
		r.m = before
	} else if err != nil {
		if errAllowed {
			r.m = before
		} else {
			r.fail("unexpected-error", "operation %s failed: %v", r.trace[len(r.trace)-1], err)
			return false
		}
	}
	return r.checkAll()
}

func keysOfB(m map[string][]byte) []string {
	var r []string
	for k := range m {
		r = append(r, k)
	}
	sort.Strings(r)
	return r
}
func keysOfS(m map[string]string) []string {
	var r []string
	for k := range m {
		r = append(r, k)
	}
	sort.Strings(r)
	return r
}

func c15Run(c *fw.Case, env *fw.Env) *fw.Obs {
	if c.Kind == "concurrent" {
		return c15ConcRun(c, env)
	}
	o := fw.NewObs(c)
	var p c15Params
	c.P(&p)
	rng := c.Rand()
	r := &c15Runner{o: o, m: &c15Model{vals: map[string]string{}, logs: map[string][]c15Log{}}, kind: p.Store, rng: rng, clock: 1600000000, names: c15NamesSQL}
	switch p.Store {
	case "fs":
		dir := filepath.Join(env.Dir, "reffs-"+c.ID)
		os.RemoveAll(dir)
		defer os.RemoveAll(dir)
		r.s = reffs.NewStore(dir)
		r.names = c15NamesFS
	case "sql-file":
		path := filepath.Join(env.Dir, "refs-"+c.ID+".db")
		os.Remove(path)
		defer os.Remove(path)
		s, db, err := mon.NewFileRefStore(path, true)
		if err != nil {
			o.Status = "inconclusive"
			o.Note = err.Error()
			return o
		}
		defer db.Close()
		r.s = s
	default:
		s, db, err := mon.NewMemRefStore()
		if err != nil {
			o.Status = "inconclusive"
			o.Note = err.Error()
			return o
		}
		defer db.Close()
		r.s = s
	}
	if p.Store != "fs" {
		// the transaction rows the logged txids refer to
		r.s.NewTransaction(&ref.Transaction{ID: c15TxID, Status: ref.TSInProgress, Begin: time.Unix(1600000000, 0)})
	}
	if p.Hot {
		r.hot, r.names = true, r.names[:2]
		o.Ev("programs_with_long_logs", 1)
	}
	states := map[string]bool{}
	for i := 0; i < p.Steps; i++ {
		if !r.step() {
			break
		}
		ks := r.m.filter(nil, nil)
		states[strings.Join(ks, ",")] = true
	}
	o.Ev("distinct_model_states", int64(len(states)))
	special := 0
	for k := range r.m.vals {
		if strings.ContainsAny(k, "_%") {
			special++
		}
	}
	o.Ev("final_names_with_wildcard_chars", int64(special))
	if o.Events["ops"] >= 3 {
		o.Key("%s/%d/%d", p.Store, p.Steps, c.Seed%1000000)
	}
	tr := r.trace
	if len(tr) > 12 {
		tr = tr[:12]
	}
	o.Sample = map[string]interface{}{"store": p.Store, "steps": p.Steps, "first_ops": tr, "final_names": len(r.m.vals), "model_states": len(states)}
	return o
}

var _ = bytes.Equal

func init() {
	fw.Register(&fw.Property{
		ID:          "C15",
		Level:       "exploration",
		Rule:        "seeded programs of 5..60 operations (Set, SetWithLog with arbitrary caller-side OldOID, SaveRef, Delete, Rename, Copy, Filter/FilterKey with prefix and not-prefix lists, ListRemoteRefs/ListHeads, DeleteAllRemoteRefs, RenameAllRemoteRefs, DeleteTransactionRefs) over an alphabet of names that are prefixes of one another and contain '_', '%' and case variants, with remotes named like pieces of the namespace (remote, remotes, s, e), on the SQL store (memory and file) and the file store (restricted to what it implements); after EVERY step every name's value and full log (newest first) and the requested listing are compared with a map + per-name append-only log model; distinct_nontrivial = distinct programs with >=3 operations",
		Assumptions: []string{"rename/copy onto an existing name and copy of a missing name must fail without effect", "file store: only directory prefixes, Copy only from logged refs, OldOID supplied by SaveRef as wrgl does"},
		Gen: func(tier string, seed int64) []fw.Case {
			l := fw.NewCaseList("C15", tier, seed)
			rng := l.Rng()
			for i := 0; i < l.N(300, 20000); i++ {
				st := "sql-mem"
				switch rng.Intn(6) {
				case 0:
					st = "sql-file"
				case 1:
					st = "fs"
				}
				l.Add("program", c15Params{Store: st, Steps: 5 + rng.Intn(56)}, 0)
			}
			// long logs: two names, mostly logged sets
			for i := 0; i < l.N(9, 300); i++ {
				l.Add("program", c15Params{Store: []string{"sql-mem", "sql-file", "fs"}[i%3], Steps: 140 + rng.Intn(160), Hot: true}, 0)
			}
			// concurrent clients on one file (linearizability per name + reflog chain)
			for i := 0; i < l.N(8, 600); i++ {
				l.Add("concurrent", c15ConcParams{Clients: 3 + rng.Intn(5), Ops: 8 + rng.Intn(14), Names: 2 + rng.Intn(2), Chain: rng.Intn(2) == 0}, 0)
			}
			return l.Cases
		},
		Run: c15Run,
	})
}
