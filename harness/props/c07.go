package props

import (
	"bytes"
	"fmt"
	"io"
	"math/rand"
	"sort"
	"strings"

	"github.com/go-logr/logr"
	apiutils "github.com/wrgl/wrgl/pkg/api/utils"
	"github.com/wrgl/wrgl/pkg/encoding/packfile"
	"github.com/wrgl/wrgl/pkg/objects"

	"verif/fw"
	"verif/mon"
)

// C07 — commits sent through packfiles are reproduced exactly at the destination.

type c07Params struct {
	N        int    `json:"n"`
	BaseRows int    `json:"base_rows"`
	MaxPack  uint64 `json:"max_pack"`
	Hostile  string `json:"hostile,omitempty"` // "", commit-before-parent, table-before-block
	Finder   bool   `json:"finder"`
}

type sentObj struct {
	Type int
	Sum  string
}

// sendAll loops WriteObjects -> bytes -> PackfileReader -> Receive until done.
func sendAll(sender *apiutils.ObjectSender, recv *apiutils.ObjectReceiver, mutate func(pack int, objs [][2]interface{}) [][2]interface{}, cutPack func(pack int, data []byte) []byte) (packs [][]sentObj, recvDone bool, err error) {
	for i := 0; i < 100000; i++ {
		var buf bytes.Buffer
		sdone, info, werr := sender.WriteObjects(&buf, nil)
		if werr != nil {
			return packs, false, fmt.Errorf("WriteObjects: %w", werr)
		}
		data := buf.Bytes()
		if mutate != nil {
			// re-pack the objects in a different order
			pr, perr := packfile.NewPackfileReader(io.NopCloser(bytes.NewReader(data)))
			if perr != nil {
				return packs, false, perr
			}
			var objs [][2]interface{}
			for {
				ot, b, e := pr.ReadObject()
				if ot != 0 {
					objs = append(objs, [2]interface{}{ot, b})
				}
				if e != nil {
					break
				}
			}
			objs = mutate(i, objs)
			var nb bytes.Buffer
			pw, _ := packfile.NewPackfileWriter(&nb)
			for _, ob := range objs {
				pw.WriteObject(ob[0].(int), ob[1].([]byte))
			}
			data = nb.Bytes()
		}
		if cutPack != nil {
			data = cutPack(i, data)
		}
		var one []sentObj
		for _, ob := range info.Objects {
			t := map[string]int{"commit": packfile.ObjectCommit, "table": packfile.ObjectTable, "block": packfile.ObjectBlock}[ob[0]]
			one = append(one, sentObj{t, ob[1]})
		}
		packs = append(packs, one)
		pr, perr := packfile.NewPackfileReader(io.NopCloser(bytes.NewReader(data)))
		if perr != nil {
			return packs, false, fmt.Errorf("NewPackfileReader: %w", perr)
		}
		rdone, rerr := recv.Receive(pr, nil)
		if rerr != nil {
			return packs, false, fmt.Errorf("Receive (packfile %d): %w", i, rerr)
		}
		recvDone = rdone
		if sdone {
			return packs, recvDone, nil
		}
	}
	return packs, recvDone, fmt.Errorf("sender never finished")
}

func c07Run(c *fw.Case, env *fw.Env) *fw.Obs {
	o := fw.NewObs(c)
	var p c07Params
	c.P(&p)
	rng := c.Rand()
	src := mon.NewMemStore()
	h, err := buildHistory(src, rng, histOpts{N: p.N, BaseRows: p.BaseRows, Rekey: true})
	if err != nil {
		o.Status = "inconclusive"
		o.Note = err.Error()
		return o
	}
	class := "pack=" + packClass(p.MaxPack)
	// common frontier: an arbitrary subset of commits, closed under ancestors, fully present at the destination
	dst := mon.NewMemStore()
	common := map[int]bool{}
	var commonTips [][]byte
	for k := rng.Intn(3); k > 0; k-- {
		t := rng.Intn(p.N)
		if t == p.N-1 && p.N > 1 {
			continue
		}
		commonTips = append(commonTips, h.sums[t])
		for a := range h.anc[t] {
			common[a] = true
		}
		if err := h.copyCommitClosure(src, dst, t); err != nil {
			o.Status = "inconclusive"
			o.Note = err.Error()
			return o
		}
	}
	var toSend []*objects.Commit
	tablesToSend := map[string]struct{}{}
	var sendIdx []int
	if p.Finder {
		// what negotiation would produce for want = last commit, haves = common tips
		rs, sdb, err := mon.NewMemRefStore()
		if err != nil {
			o.Status = "inconclusive"
			o.Note = err.Error()
			return o
		}
		defer sdb.Close()
		rs.Set("heads/main", h.sums[p.N-1])
		f := apiutils.NewClosedSetsFinder(src, rs, 0)
		if _, err := f.Process([][]byte{h.sums[p.N-1]}, commonTips, true); err != nil {
			o.Violate("finder-error/ClosedSetsFinder", "%v", err)
			return o
		}
		toSend, _ = f.CommitsToSend()
		tablesToSend, _ = f.TablesToSend()
		commonTips = f.CommonCommmits()
		for _, cm := range toSend {
			sendIdx = append(sendIdx, h.index[string(cm.Sum)])
		}
	} else {
		for i := 0; i < p.N; i++ { // index order is a topological order
			if !common[i] {
				cm, _ := objects.GetCommit(src, h.sums[i])
				toSend = append(toSend, cm)
				sendIdx = append(sendIdx, i)
				tablesToSend[string(h.tables[i])] = struct{}{}
			}
		}
	}
	if len(toSend) == 0 {
		return o
	}
	// the destination may already hold an arbitrary subset of the remaining blocks and complete tables
	pre := 0
	for _, i := range sendIdx {
		if rng.Intn(4) == 0 {
			ks, _ := tableKeys(src, h.tables[i])
			if rng.Intn(2) == 0 {
				copyKeys(src, dst, ks) // complete table
				pre += len(ks)
			} else {
				for _, k := range ks {
					if strings.HasPrefix(k, "blk/") && rng.Intn(2) == 0 {
						copyKeys(src, dst, []string{k})
						pre++
					}
				}
			}
		}
	}
	before := dst.Snapshot()
	sender, err := apiutils.NewObjectSender(src, toSend, tablesToSend, commonTips, p.MaxPack)
	if err != nil {
		o.Violate("sender-error/NewObjectSender/"+class, "%v", err)
		return o
	}
	var expected [][]byte
	for _, cm := range toSend {
		expected = append(expected, cm.Sum)
	}
	recv := apiutils.NewObjectReceiver(dst, expected, logr.Discard())
	var mutate func(int, [][2]interface{}) [][2]interface{}
	mutated := false
	if p.Hostile != "" {
		mutate = func(pack int, objs [][2]interface{}) [][2]interface{} {
			if mutated {
				return objs
			}
			for i := range objs {
				switch p.Hostile {
				case "commit-before-parent":
					// move a commit in front of its parent commit within the same packfile
					if objs[i][0].(int) != packfile.ObjectCommit {
						continue
					}
					_, cm, err := objects.ReadCommitFrom(bytes.NewReader(objs[i][1].([]byte)))
					if err != nil {
						continue
					}
					for j := 0; j < i; j++ {
						if objs[j][0].(int) != packfile.ObjectCommit {
							continue
						}
						psum := meowSum(objs[j][1].([]byte))
						for _, pp := range cm.Parents {
							if bytes.Equal(pp, psum) && before["com/"+string(psum)] == nil {
								// move commit i to position j
								ob := objs[i]
								copy(objs[j+1:i+1], objs[j:i])
								objs[j] = ob
								mutated = true
								return objs
							}
						}
					}
				case "table-before-block":
					if objs[i][0].(int) != packfile.ObjectTable {
						continue
					}
					_, tb, err := objects.ReadTableFrom(bytes.NewReader(objs[i][1].([]byte)))
					if err != nil {
						continue
					}
					for j := 0; j < i; j++ {
						if objs[j][0].(int) != packfile.ObjectBlock {
							continue
						}
						// block sums are of the uncompressed content: find via the source store
						for _, bs := range tb.Blocks {
							raw, _ := src.Get(append([]byte("blk/"), bs...))
							if bytes.Equal(raw, objs[j][1].([]byte)) && !dst.Exist(append([]byte("blk/"), bs...)) {
								ob := objs[i]
								copy(objs[j+1:i+1], objs[j:i])
								objs[j] = ob
								mutated = true
								return objs
							}
						}
					}
				}
			}
			return objs
		}
	}
	// "truncated": one packfile ends in the middle of an object's body (the connection dropped); the objects after the
	// cut are lost although the sender counts them as sent
	var cutPack func(int, []byte) []byte
	cutDesc := ""
	if p.Hostile == "truncated" {
		target := rng.Intn(1 + min(p.N, 6))
		tablesOnly := rng.Intn(2) == 0 // half the cuts fall inside a table object (its commit follows in the stream)
		cutPack = func(pack int, data []byte) []byte {
			if mutated || pack < target {
				return data
			}
			pr, perr := packfile.NewPackfileReader(io.NopCloser(bytes.NewReader(data)))
			if perr != nil {
				return data
			}
			type span struct{ typ, end, n int }
			var spans []span
			for {
				ot, b, e := pr.ReadObject()
				if e != nil || ot == 0 {
					break
				}
				spans = append(spans, span{ot, 0, len(b)})
			}
			// object j ends at len(data) minus the encoded size of everything after it; walk back from the end
			end := len(data)
			for j := len(spans) - 1; j >= 0; j-- {
				spans[j].end = end
				end -= spans[j].n + packHeaderLen(uint64(spans[j].n))
			}
			var cand []span
			for _, sp := range spans {
				if sp.n >= 2 && (!tablesOnly || sp.typ == packfile.ObjectTable) {
					cand = append(cand, sp)
				}
			}
			if len(cand) == 0 {
				return data
			}
			sp := cand[rng.Intn(len(cand))]
			k := 1 + rng.Intn(sp.n-1) // bytes of the body that are lost
			mutated = true
			cutDesc = fmt.Sprintf("packfile %d cut %d bytes before the end of a %d-byte object of type %d", pack, k, sp.n, sp.typ)
			return data[:sp.end-k]
		}
	}
	var packs [][]sentObj
	var rdone bool
	var serr error
	if pn := fw.Catch(func() { packs, rdone, serr = sendAll(sender, recv, mutate, cutPack) }); pn != "" {
		o.Violate("panic/transfer/"+class, "%s", pn)
		return o
	}
	o.Ev("oracle_evaluations", 1)
	o.Ev("packfiles", int64(len(packs)))
	nobj := 0
	for _, pk := range packs {
		nobj += len(pk)
	}
	o.Ev("objects_sent", int64(nobj))
	o.Ev("objects_prepopulated", int64(pre))
	o.Sample = map[string]interface{}{"commits": p.N, "to_send": len(toSend), "common_tips": len(commonTips), "max_pack": p.MaxPack, "packfiles": len(packs), "objects": nobj, "hostile": p.Hostile, "via_finder": p.Finder}
	after := dst.Snapshot()
	if p.Hostile == "truncated" && mutated {
		o.Ev("truncated_streams", 1)
		o.Sample.(map[string]interface{})["cut"] = cutDesc
		if serr != nil {
			o.Ev("truncated_streams_refused", 1)
			c07CheckVisible(o, dst, before, after, p.Hostile)
			o.Key("hostile/%s/%d", p.Hostile, c.Seed%100000)
			return o
		}
		// accepted to the end: then nothing may be missing (falls through to the completeness checks)
		class = "truncated-stream-accepted/" + class
	} else if p.Hostile != "" {
		if !mutated {
			o.Ev("hostile_not_applicable", 1)
		} else {
			o.Ev("hostile_streams", 1)
			if serr == nil {
				o.Violate("out-of-order-stream-accepted/ObjectReceiver/"+p.Hostile, "a stream with %s was accepted", p.Hostile)
			}
			// nothing half-visible: commits have parents, visible tables are sound
			c07CheckVisible(o, dst, before, after, p.Hostile)
			o.Key("hostile/%s/%d", p.Hostile, c.Seed%100000)
			return o
		}
	}
	if serr != nil {
		o.Violate("transfer-error/ObjectReceiver/"+class, "sender-produced stream refused: %v", serr)
		return o
	}
	if !rdone {
		o.Violate("not-done/ObjectReceiver/"+class, "all packfiles received but the receiver does not report done (expected %d commits)", len(expected))
	}
	// every sent commit and table byte-identical under the identical key
	srcSnap := src.Snapshot()
	for _, i := range sendIdx {
		k := "com/" + string(h.sums[i])
		if !bytes.Equal(after[k], srcSnap[k]) {
			o.Violate("commit-missing-or-different/destination/"+class, "commit %d absent or different at the destination", i)
			return o
		}
		if _, ok := tablesToSend[string(h.tables[i])]; !ok {
			continue
		}
		ks, _ := tableKeys(src, h.tables[i])
		for _, key := range ks {
			if strings.HasPrefix(key, "tblsum/") {
				if _, ok := after[key]; !ok {
					o.Violate("profile-missing/destination/"+class, "profile of table of commit %d not rebuilt", i)
				}
				continue
			}
			if !bytes.Equal(after[key], srcSnap[key]) {
				kind := key[:strings.IndexByte(key, '/')]
				o.Violate(kind+"-missing-or-different/destination/"+class, "object %s/%x of commit %d absent or different at the destination", kind, key[len(kind)+1:], i)
				return o
			}
		}
		if _, issues := mon.CheckTable(dst, h.tables[i], mon.CheckOpts{}); len(issues) > 0 {
			o.Violate("structure/"+issues[0].Clause+"/received-table/"+class, "%s", issues[0].Detail)
			return o
		}
		o.Ev("tables_checked", 1)
		// usable for diff: diff against the original across the two stores is empty
		if c.Seed%3 == 0 {
			ev, derr, stuck := runDiff(src, dst, h.tables[i], h.tables[i])
			if derr != nil || stuck || len(ev) != 0 {
				o.Violate("diff-not-empty/received-table/"+class, "diff(src,dst) of table of commit %d: %d events, err %v", i, len(ev), derr)
				return o
			}
			o.Ev("cross_store_diffs", 1)
		}
	}
	// ordering of the recorded stream
	seenBlock := map[string]bool{}
	seenCommit := map[string]bool{}
	for _, pk := range packs {
		for _, ob := range pk {
			switch ob.Type {
			case packfile.ObjectBlock:
				seenBlock[ob.Sum] = true
			case packfile.ObjectTable:
				sum := hexDecode(ob.Sum)
				t, err := objects.GetTable(src, sum)
				if err != nil {
					continue
				}
				for _, b := range t.Blocks {
					if !seenBlock[fmt.Sprintf("%x", b)] && before["blk/"+string(b)] == nil {
						o.Violate("table-before-its-block/ObjectSender/"+class, "table %s sent before block %x which the destination did not have", ob.Sum, b)
						return o
					}
				}
			case packfile.ObjectCommit:
				sum := hexDecode(ob.Sum)
				cm, err := objects.GetCommit(src, sum)
				if err != nil {
					continue
				}
				for _, pp := range cm.Parents {
					if !seenCommit[fmt.Sprintf("%x", pp)] && before["com/"+string(pp)] == nil {
						o.Violate("commit-before-its-parent/ObjectSender/"+class, "commit %s sent before parent %x which the destination did not have", ob.Sum, pp)
						return o
					}
				}
				seenCommit[ob.Sum] = true
			}
		}
	}
	// nothing that was there before changed
	for k, v := range before {
		if !bytes.Equal(after[k], v) && !strings.HasPrefix(k, "tblsum/") && !strings.HasPrefix(k, "tblidx/") && !strings.HasPrefix(k, "blkidx/") {
			o.Violate("existing-object-changed/destination/"+class, "object %q changed during the transfer", k[:8])
			return o
		}
	}
	if len(toSend) >= 1 && nobj >= 2 {
		o.Key("%s/n%d/send%d/packs%d/%d", class, p.N, len(toSend), len(packs), c.Seed%100000)
	}
	o.Set("packfile_counts", fmt.Sprint(len(packs)))
	return o
}

func c07CheckVisible(o *fw.Obs, dst *mon.MemStore, before, after map[string][]byte, class string) {
	for k := range after {
		if _, ok := before[k]; ok {
			continue
		}
		switch {
		case strings.HasPrefix(k, "com/"):
			cm, err := objects.GetCommit(dst, []byte(k[4:]))
			if err != nil {
				o.Violate("unreadable-commit-visible/ObjectReceiver/"+class, "%v", err)
				return
			}
			for _, pp := range cm.Parents {
				if !objects.CommitExist(dst, pp) {
					o.Violate("commit-accepted-without-parent/ObjectReceiver/"+class, "commit %x is stored although parent %x is missing", k[4:], pp)
					return
				}
			}
		case strings.HasPrefix(k, "tbl/"):
			if _, issues := mon.CheckTable(dst, []byte(k[4:]), mon.CheckOpts{}); len(issues) > 0 {
				o.Violate("rejected-table-left-visible/ObjectReceiver/"+class, "table %x is reported present after the rejected stream but is not usable: %s", k[4:], issues[0])
				return
			}
		}
	}
}

// packHeaderLen is the size of a packfile object header for a body of n bytes (4 bits in the first byte, 7 per further
// byte, at least two bytes).
func packHeaderLen(n uint64) int {
	h := 1
	n >>= 4
	for n > 0 {
		h++
		n >>= 7
	}
	if h == 1 {
		h = 2
	}
	return h
}

func hexDecode(s string) []byte {
	b := make([]byte, len(s)/2)
	fmt.Sscanf(s, "%x", &b)
	return b
}

func packClass(m uint64) string {
	switch {
	case m == 0:
		return "default"
	case m <= 2:
		return "tiny"
	case m <= 1024:
		return "small"
	default:
		return "medium"
	}
}

var _ = sort.Ints
var _ = rand.Int

func init() {
	fw.Register(&fw.Property{
		ID:          "C07",
		Level:       "exploration",
		Rule:        "seeded commit DAGs of 1..12 commits whose tables derive from one another by small edits (shared blocks, identical tables on several commits, 1..3-block tables); send set = closed parent-first list from the graph model or the list ClosedSetsFinder produced; common commits fully present at the destination plus an arbitrary subset of the remaining blocks and complete tables; max packfile size in {1, 2, 100, 1 KiB, 64 KiB, default}; loop WriteObjects -> PackfileReader -> Receive until done; oracle: key->bytes snapshots of both stores (byte-identical commits, tables, blocks, block indices, table index; profile rebuilt), structural monitor on every received table, cross-store diff empty, recorded (type,sum) stream ordered blocks-before-table and parents-before-child; hostile half: a commit moved before its parent / a table before one of its blocks must be refused and leave nothing half-visible; a packfile cut inside an object body must be refused or, if the transfer is accepted to the end, leave nothing missing; distinct_nontrivial = distinct (pack class, history size, send size, packfile count, seed)",
		Assumptions: []string{"in-memory transport (HTTP framing is C09/C18)", "tables of common commits are complete at the destination (the sender's precondition)"},
		Gen: func(tier string, seed int64) []fw.Case {
			l := fw.NewCaseList("C07", tier, seed)
			rng := l.Rng()
			packs := []uint64{1, 2, 100, 1024, 65536, 0}
			for i := 0; i < l.N(150, 15000); i++ {
				p := c07Params{N: 1 + rng.Intn(12), BaseRows: []int{4, 30, 300, 600}[rng.Intn(4)], MaxPack: packs[rng.Intn(len(packs))], Finder: rng.Intn(2) == 0}
				if rng.Intn(5) == 0 {
					p.Hostile = []string{"commit-before-parent", "table-before-block"}[rng.Intn(2)]
					p.MaxPack = 0
					p.Finder = false
					if p.N < 3 {
						p.N = 3 + rng.Intn(6)
					}
				} else if rng.Intn(6) == 0 {
					p.Hostile = "truncated"
					p.MaxPack = []uint64{1, 1, 100, 1024}[rng.Intn(4)]
				}
				l.Add("transfer", p, 0)
			}
			return l.Cases
		},
		Run: c07Run,
	})
}
