package props

import (
	"bytes"
	"encoding/json"
	"fmt"
	"github.com/wrgl/wrgl/pkg/diff"
	"github.com/wrgl/wrgl/pkg/progress"
	"io"
	"os"
	"os/exec"
	"path/filepath"
	"runtime"
	"sort"
	"strings"
	"sync"
	"sync/atomic"
	"time"

	"github.com/go-logr/logr"
	"github.com/wrgl/wrgl/pkg/ingest"
	"github.com/wrgl/wrgl/pkg/objects"
	"github.com/wrgl/wrgl/pkg/pbar"
	"github.com/wrgl/wrgl/pkg/sorter"
	"github.com/wrgl/wrgl/pkg/verifhook"

	"verif/fw"
	"verif/gen"
	"verif/model"
	"verif/mon"
)

// C16 — concurrent pipelines give the sequential result under every schedule.

type c16Params struct {
	Pipeline string `json:"pipeline"` // ingest | ingest-error | diff | merge | cli
	Blocks   int    `json:"blocks"`
	Workers  int    `json:"workers"`
	Procs    int    `json:"procs"`
	Yield    uint64 `json:"yield"`
	Store    string `json:"store"`
	Bars     bool   `json:"bars"`
	Count    bool   `json:"count"` // count yield hits (synchronises: no race hunting in this case)
	FailAt   int    `json:"fail_at,omitempty"`
	Cmd      string `json:"cmd,omitempty"`   // cli-error: commit | merge
	Spill    bool   `json:"spill,omitempty"` // ingest: a small run size, so that the sorter merges spill files while the workers run
}

type syncBuf struct {
	mu sync.Mutex
	b  bytes.Buffer
}

func (s *syncBuf) Write(p []byte) (int, error) {
	s.mu.Lock()
	defer s.mu.Unlock()
	return s.b.Write(p)
}

// withWatchdog runs f; on expiry it returns the goroutine dump. The verdict on a hang is by
// state (goroutines parked in wrgl code on channel / WaitGroup operations), never by time alone.
func withWatchdog(d time.Duration, f func()) (finished bool, dump string) {
	done := make(chan struct{})
	go func() {
		defer close(done)
		f()
	}()
	select {
	case <-done:
		return true, ""
	case <-time.After(d):
		buf := make([]byte, 1<<20)
		n := runtime.Stack(buf, true)
		return false, string(buf[:n])
	}
}

// runDiffTracked drains DiffTables the way the diff and merge commands do: a select over the progress tracker's events
// and the diff channel, then the tear-down (bars are finished, a moment passes) and tracker.Stop(). The progress interval
// is one millisecond so that ticks do arrive, also between the end of the loop and Stop.
func runDiffTracked(db objects.Store, sum1, sum2 []byte, joined bool) (events []diffEvent, err error, stuck bool, ticks int) {
	t1, err := objects.GetTable(db, sum1)
	if err != nil {
		return nil, err, false, 0
	}
	t2, err := objects.GetTable(db, sum2)
	if err != nil {
		return nil, err, false, 0
	}
	idx1, err := objects.GetTableIndex(db, sum1)
	if err != nil {
		return nil, err, false, 0
	}
	idx2, err := objects.GetTableIndex(db, sum2)
	if err != nil {
		return nil, err, false, 0
	}
	errChan := make(chan error, 10)
	ch, pt := diff.DiffTables(db, db, t1, t2, idx1, idx2, errChan, logr.Discard(), diff.WithProgressInterval(time.Millisecond))
	var tracker progress.Tracker = pt
	if joined {
		tracker = progress.JoinTrackers(pt)
	}
	progChan := tracker.Start()
	timeout := time.After(120 * time.Second)
loop:
	for {
		select {
		case <-progChan:
			ticks++
		case d, ok := <-ch:
			if !ok {
				break loop
			}
			events = append(events, diffEvent{PK: string(d.PK), Sum: string(d.Sum), OldSum: string(d.OldSum), Offset: d.Offset, OldOffset: d.OldOffset})
		case <-timeout:
			return events, nil, true, ticks
		}
	}
	time.Sleep(5 * time.Millisecond) // tear-down of the bars: ticks keep arriving and nobody reads them any more
	tracker.Stop()
	select {
	case e := <-errChan:
		return events, e, false, ticks
	default:
	}
	return events, nil, false, ticks
}

func parkedInWrgl(dump string) bool {
	for _, g := range strings.Split(dump, "\n\n") {
		if !(strings.Contains(g, "[chan send") || strings.Contains(g, "[chan receive") || strings.Contains(g, "[semacquire") || strings.Contains(g, "[select")) {
			continue
		}
		if strings.Contains(g, "github.com/wrgl/wrgl/pkg/") {
			return true
		}
	}
	return false
}

func c16Table(blocks int, seed int64) []byte {
	rows := blocks*255 - 7
	if rows < 1 {
		rows = 1
	}
	t := &gen.Table{Cols: []string{"id", "a", "b"}}
	for i := 0; i < rows; i++ {
		t.Rows = append(t.Rows, []string{fmt.Sprintf("k%07d", (int64(i)*7919+seed)%10000019), fmt.Sprintf("a%d", i%13), fmt.Sprintf("b%d", i%5)})
	}
	return gen.ToCSV(t, 0)
}

// c16RunSize is the sorter's run size of the current case (0 = everything stays in memory).
var c16RunSize uint64

func ingestWithBars(db objects.Store, csvBytes []byte, workers int, bars bool) ([]byte, error) {
	var sopts []sorter.SorterOption
	iopts := []ingest.InserterOption{ingest.WithNumWorkers(workers)}
	var cont *pbar.Container
	if bars {
		cont = pbar.NewContainer(&syncBuf{}, false)
		sortBar := cont.NewBar(-1, "sorting", 0)
		blkBar := cont.NewBar(-1, "saving blocks", 0)
		// as cmd/wrgl does: bars are completed before the container is waited for
		defer func() {
			sortBar.Done()
			blkBar.Done()
			cont.Wait()
		}()
		sopts = append(sopts, sorter.WithProgressBar(sortBar))
		iopts = append(iopts, ingest.WithProgressBar(blkBar))
	}
	if c16RunSize > 0 {
		sopts = append(sopts, sorter.WithRunSize(c16RunSize))
	} else {
		sopts = append(sopts, sorter.WithRunSize(1<<30))
	}
	s, err := sorter.NewSorter(sopts...)
	if err != nil {
		return nil, err
	}
	sum, err := ingest.IngestTable(db, s, io.NopCloser(bytes.NewReader(csvBytes)), []string{"id"}, logr.Discard(), iopts...)
	return sum, err
}

func completionOrder(log []mon.WriteRec) string {
	var parts []string
	for _, w := range log {
		if strings.HasPrefix(w.Key, "blkidx/") {
			parts = append(parts, fmt.Sprintf("%x", w.Key[7:9]))
		}
	}
	return strings.Join(parts, "")
}

// c16CountInSubprocess re-runs the case in a child worker whose verifhook counts yield hits.
// The yield configuration is read once at process start and never written afterwards, so that
// Yield needs no synchronisation of its own (which would hide races from the detector).
func c16CountInSubprocess(c *fw.Case, env *fw.Env, o *fw.Obs) *fw.Obs {
	dir := filepath.Join(env.Dir, "count-"+c.ID)
	os.MkdirAll(dir, 0755)
	defer os.RemoveAll(dir)
	b, _ := json.Marshal(c)
	os.WriteFile(filepath.Join(dir, "cases.jsonl"), append(b, '\n'), 0644)
	cmd := exec.Command(env.Self, "worker", "C16", filepath.Join(dir, "cases.jsonl"), filepath.Join(dir, "obs.jsonl"))
	cmd.Dir = dir
	cmd.Env = append(os.Environ(), "VERIF_YIELD_COUNT=1")
	out, err := cmd.CombinedOutput()
	data, _ := os.ReadFile(filepath.Join(dir, "obs.jsonl"))
	for _, ln := range strings.Split(string(data), "\n") {
		if strings.HasPrefix(ln, "O ") {
			var inner fw.Obs
			if json.Unmarshal([]byte(ln[2:]), &inner) == nil {
				return &inner
			}
		}
	}
	o.Status = "inconclusive"
	o.Note = fmt.Sprintf("count subprocess failed: %v %s", err, tailStr(string(out), 500))
	return o
}

func c16Run(c *fw.Case, env *fw.Env) *fw.Obs {
	o := fw.NewObs(c)
	var p c16Params
	c.P(&p)
	if p.Procs > 0 {
		defer runtime.GOMAXPROCS(runtime.GOMAXPROCS(p.Procs))
	}
	if p.Count && os.Getenv("VERIF_YIELD_COUNT") == "" {
		return c16CountInSubprocess(c, env, o)
	}
	verifhook.YieldHits()
	class := p.Pipeline
	o.Sample = map[string]interface{}{"pipeline": p.Pipeline, "blocks": p.Blocks, "workers": p.Workers, "gomaxprocs": p.Procs, "yield_seed": p.Yield, "bars": p.Bars, "store": p.Store}
	switch p.Pipeline {
	case "ingest", "ingest-error":
		csvBytes := c16Table(p.Blocks, c.Seed%1000)
		// sequential reference: one worker, no perturbation
		refDB := mon.NewMemStore()
		refSum, err := ingestWithBars(refDB, csvBytes, 1, false)
		if err != nil {
			o.Status = "inconclusive"
			o.Note = "reference ingest failed: " + err.Error()
			return o
		}
		var db objects.Store
		mem := mon.NewMemStore()
		mem.Record = true
		db = mem
		if p.Store == "badger" {
			dir := filepath.Join(env.Dir, "badger-"+c.ID)
			os.RemoveAll(dir)
			os.MkdirAll(dir, 0755)
			bdb, err := mon.OpenBadger(dir)
			if err != nil {
				o.Status = "inconclusive"
				o.Note = err.Error()
				return o
			}
			defer func() { bdb.Close(); os.RemoveAll(dir) }()
			db = bdb
		}
		if p.Pipeline == "ingest-error" {
			mem.FailAt = int64(p.FailAt)
		}
		c16RunSize = 0
		if p.Spill {
			c16RunSize = uint64(len(csvBytes)/5 + 1)
			// a goroutine the pipeline leaves behind may still be running when the call has returned: give it a moment, so
			// that what it does (e.g. a send on a channel the caller closed) is attributed to this case
			defer time.Sleep(150 * time.Millisecond)
		}
		var sum []byte
		var ierr error
		var pn string
		finished, dump := withWatchdog(90*time.Second, func() {
			pn = fw.Catch(func() { sum, ierr = ingestWithBars(db, csvBytes, p.Workers, p.Bars) })
		})
		o.Ev("oracle_evaluations", 1)
		o.Ev("runs_"+p.Pipeline, 1)
		if p.Workers >= 4 {
			o.Ev("runs_with_2plus_real_workers", 1)
		}
		if !finished {
			if parkedInWrgl(dump) {
				o.Violate("deadlock/"+class, "the call did not return within 90 s and wrgl goroutines are parked on channel/WaitGroup operations (workers=%d blocks=%d fail_at=%d)\n%s", p.Workers, p.Blocks, p.FailAt, tailStr(dump, 6000))
			} else {
				o.Status = "inconclusive"
				o.Note = "watchdog expired without parked wrgl goroutines"
			}
			return o
		}
		if pn != "" {
			o.Violate("panic/"+class, "%s", pn)
			return o
		}
		if p.Pipeline == "ingest-error" {
			if mem.Writes >= int64(p.FailAt) && ierr == nil {
				o.Violate("worker-error-not-reported/ingest", "store write %d failed in one worker but IngestTable returned no error (workers=%d)", p.FailAt, p.Workers)
			}
			if ierr != nil {
				o.Ev("injected_errors_reported", 1)
			}
			o.Key("ingest-error/w%d/b%d/f%d", p.Workers, p.Blocks, p.FailAt)
			return o
		}
		if ierr != nil {
			o.Violate("ingest-error/"+class, "%v", ierr)
			return o
		}
		if !bytes.Equal(sum, refSum) {
			o.Violate("result-differs-from-sequential/ingest", "workers=%d procs=%d yield=%d: table %x, 1-worker table %x", p.Workers, p.Procs, p.Yield, sum, refSum)
		}
		if _, issues := mon.CheckTable(db, sum, mon.CheckOpts{}); len(issues) > 0 {
			o.Violate("structure/"+issues[0].Clause+"/ingest", "workers=%d: %s", p.Workers, issues[0].Detail)
		}
		if p.Store != "badger" {
			o.Set("completion_orders", fmt.Sprintf("w%d:%s", p.Workers, completionOrder(mem.Log)))
		}
		o.Key("ingest/w%d/b%d/p%d/y%d/%s/bars=%v", p.Workers, p.Blocks, p.Procs, p.Yield, p.Store, p.Bars)
	case "diff":
		rng := c.Rand()
		pp := c04Params{Scenario: "random", N1: p.Blocks * 255, N2: p.Blocks*255 - 100, NCols: 3, PK: []int{0}, ModRate: 0.2}
		cols, rows1, rows2 := genPair(rng, &pp)
		db := mon.NewMemStore()
		s1, _, e1 := ingestTbl(db, &model.Tbl{Cols: cols, PK: []string{cols[0]}, Rows: rows1})
		s2, _, e2 := ingestTbl(db, &model.Tbl{Cols: cols, PK: []string{cols[0]}, Rows: rows2})
		if e1 != nil || e2 != nil {
			o.Status = "inconclusive"
			o.Note = fmt.Sprint(e1, e2)
			return o
		}
		refEv, _, _ := runDiff(db, db, s1, s2)
		var ev []diffEvent
		var derr error
		var stuck bool
		var ticks int
		finished, dump := withWatchdog(150*time.Second, func() { ev, derr, stuck, ticks = runDiffTracked(db, s1, s2, c.Seed%2 == 0) })
		o.Ev("oracle_evaluations", 1)
		o.Ev("runs_diff", 1)
		o.Ev("progress_ticks_consumed", int64(ticks))
		if !finished || stuck {
			if parkedInWrgl(dump) || stuck {
				o.Violate("deadlock/diff", "diff did not finish\n%s", tailStr(dump, 4000))
			} else {
				o.Status = "inconclusive"
			}
			return o
		}
		if derr != nil {
			o.Violate("diff-error/diff", "%v", derr)
			return o
		}
		canon := func(es []diffEvent) string {
			var ss []string
			for _, e := range es {
				ss = append(ss, fmt.Sprintf("%x|%x|%x|%d|%d", e.PK, e.Sum, e.OldSum, e.Offset, e.OldOffset))
			}
			sort.Strings(ss)
			return strings.Join(ss, "\n")
		}
		if canon(ev) != canon(refEv) {
			o.Violate("result-differs-from-sequential/diff", "perturbed diff produced %d events, unperturbed %d", len(ev), len(refEv))
		}
		o.Ev("diff_events", int64(len(ev)))
		o.Key("diff/b%d/p%d/y%d", p.Blocks, p.Procs, p.Yield)
	case "merge":
		rng := c.Rand()
		mp := c05Params{Rows: p.Blocks*255 - 20, NCols: 3, PK: []int{0}, Branches: 2 + int(c.Seed%2), Ops: []string{"edit", "add", "remove", "conflict", "samecell"}, Intensity: 12, Output: "rows"}
		base, branches, scripts := genMergeTuple(rng, &mp)
		db := mon.NewMemStore()
		baseSum, baseT, err := ingestTbl(db, base)
		if err != nil {
			o.Status = "inconclusive"
			o.Note = err.Error()
			return o
		}
		var sums [][]byte
		var tbls []*objects.Table
		for _, b := range branches {
			s, t, err := ingestTbl(db, b)
			if err != nil {
				o.Status = "inconclusive"
				o.Note = err.Error()
				return o
			}
			sums = append(sums, s)
			tbls = append(tbls, t)
		}
		ref, rerr := runMergePkg(db, baseSum, baseT, sums, tbls, "rows")
		if rerr != nil {
			o.Status = "inconclusive"
			o.Note = "reference merge failed: " + rerr.Error()
			return o
		}
		var out *mergeOutcome
		var merr error
		var pn string
		finished, dump := withWatchdog(200*time.Second, func() {
			pn = fw.Catch(func() { out, merr = runMergePkg(db, baseSum, baseT, sums, tbls, "rows") })
		})
		o.Ev("oracle_evaluations", 1)
		o.Ev("runs_merge", 1)
		if !finished {
			if parkedInWrgl(dump) {
				o.Violate("deadlock/merge", "merge did not finish\n%s", tailStr(dump, 4000))
			} else {
				o.Status = "inconclusive"
			}
			return o
		}
		if pn != "" || merr != nil {
			o.Violate("merge-error/merge", "%v %s scripts=%v", merr, pn, scripts)
			return o
		}
		canonRows := func(rows [][]string) string {
			var ss []string
			for _, r := range rows {
				ss = append(ss, strings.Join(r, "\x00"))
			}
			return strings.Join(ss, "\n")
		}
		confKeys := func(m map[string][]string) string {
			var ks []string
			for k, v := range m {
				ks = append(ks, fmt.Sprintf("%x:%v", k, v))
			}
			sort.Strings(ks)
			return strings.Join(ks, ";")
		}
		if canonRows(out.rows) != canonRows(ref.rows) || confKeys(out.conflicts) != confKeys(ref.conflicts) {
			o.Violate("result-differs-from-sequential/merge", "perturbed merge: %d rows %d conflicts; unperturbed: %d rows %d conflicts", len(out.rows), len(out.conflicts), len(ref.rows), len(ref.conflicts))
		}
		o.Ev("merge_conflicts", int64(len(out.conflicts)))
		o.Key("merge/b%d/br%d/p%d/y%d", p.Blocks, mp.Branches, p.Procs, p.Yield)
	case "merge-error", "diff-error":
		// a store that starts failing at its n-th operation: every differ goroutine then reports an error
		rng := c.Rand()
		mp := c05Params{Rows: 3*255 - 20, NCols: 3, PK: []int{0}, Branches: 2 + int(c.Seed%2), Ops: []string{"edit", "add", "remove"}, Intensity: 10, Output: "rows"}
		base, branches, _ := genMergeTuple(rng, &mp)
		db := mon.NewMemStore()
		baseSum, baseT, err := ingestTbl(db, base)
		if err != nil {
			o.Status = "inconclusive"
			o.Note = err.Error()
			return o
		}
		var sums [][]byte
		var tbls []*objects.Table
		for _, b := range branches {
			s, t, err := ingestTbl(db, b)
			if err != nil {
				o.Status = "inconclusive"
				o.Note = err.Error()
				return o
			}
			sums = append(sums, s)
			tbls = append(tbls, t)
		}
		fdb := &mon.FaultObjStore{S: db, F: &mon.Faults{StopAt: int64(p.FailAt)}}
		mergeStuckAfter = 25 * time.Second
		defer func() { mergeStuckAfter = 180 * time.Second }()
		var merr error
		var pn string
		var stuck bool
		finished, dump := withWatchdog(90*time.Second, func() {
			pn = fw.Catch(func() {
				if p.Pipeline == "merge-error" {
					_, merr = runMergePkg(fdb, baseSum, baseT, sums, tbls, "rows")
				} else {
					_, merr, stuck = runDiff(fdb, fdb, sums[0], baseSum)
				}
			})
		})
		o.Ev("oracle_evaluations", 1)
		o.Ev("runs_"+p.Pipeline, 1)
		if !finished || stuck || (merr != nil && strings.HasPrefix(merr.Error(), "STUCK")) {
			if dump == "" {
				buf := make([]byte, 1<<20)
				dump = string(buf[:runtime.Stack(buf, true)])
			}
			if parkedInWrgl(dump) {
				o.Violate("deadlock/"+p.Pipeline, "store operations fail from #%d on (%d branches): the pipeline never finished; wrgl goroutines are parked on channel operations\n%s", p.FailAt, mp.Branches, tailStr(dump, 5000))
			} else {
				o.Status = "inconclusive"
				o.Note = "pipeline stuck without parked wrgl goroutines"
			}
			return o
		}
		if pn != "" {
			o.Violate("panic/"+p.Pipeline, "%s", pn)
			return o
		}
		if atomic.LoadInt64(&fdb.F.N) >= int64(p.FailAt) && merr == nil {
			o.Violate("worker-error-not-reported/"+p.Pipeline, "store operations failed from #%d on but no error was reported", p.FailAt)
		}
		if merr != nil {
			o.Ev("injected_errors_reported", 1)
		}
		o.Key("%s/f%d/br%d", p.Pipeline, p.FailAt, mp.Branches)
	case "cli":
		// the real commands with their default progress bars and several real workers
		root := filepath.Join(env.Dir, "repo-"+c.ID)
		os.RemoveAll(root)
		defer os.RemoveAll(root)
		wd, err := mon.NewRepo(root)
		if err != nil {
			o.Status = "inconclusive"
			o.Note = err.Error()
			return o
		}
		f1, f2, f3 := filepath.Join(root, "a.csv"), filepath.Join(root, "b.csv"), filepath.Join(root, "c.csv")
		os.WriteFile(f1, c16Table(p.Blocks, 1), 0644)
		os.WriteFile(f2, c16Table(p.Blocks, 2), 0644)
		os.WriteFile(f3, c16Table(p.Blocks, 3), 0644)
		steps := [][]string{
			{"commit", "main", f1, "one", "-p", "id", "-n", fmt.Sprint(p.Workers)},
			{"branch", "create", "other", "main"},
			{"commit", "other", f2, "two", "-p", "id", "-n", fmt.Sprint(p.Workers)},
			{"commit", "main", f3, "three", "-p", "id", "-n", fmt.Sprint(p.Workers)}, // main moves on too: the merge below is a real one
			{"diff", "main", "other", "--no-gui"},
			{"diff", f1, f2, "--no-gui", "-p", "id", "-n", fmt.Sprint(p.Workers)}, // two files: both are ingested into the in-memory store
			{"merge", "main", "other", "-n", fmt.Sprint(p.Workers)},               // the merged table is ingested from the collector's blocks
		}
		for _, st := range steps {
			var out string
			var err error
			var pn string
			finished, dump := withWatchdog(200*time.Second, func() { out, err, pn = mon.Wrgl(wd, nil, st...) })
			o.Ev("cli_commands", 1)
			if !finished {
				if parkedInWrgl(dump) {
					o.Violate("deadlock/cli-"+st[0], "wrgl %v did not return\n%s", st, tailStr(dump, 4000))
				} else {
					o.Status = "inconclusive"
				}
				break
			}
			if pn != "" {
				o.Violate("panic/cli-"+st[0], "%s", pn)
				break
			}
			if err != nil {
				o.Violate("command-error/cli-"+st[0], "wrgl %v: %v %s", st, err, tailStr(out, 500))
				break
			}
		}
		ms, _ := filepath.Glob("DIFF_*.csv")
		for _, m := range ms {
			os.Remove(m)
		}
		o.Ev("oracle_evaluations", 1)
		o.Key("cli/w%d/b%d/y%d", p.Workers, p.Blocks, p.Yield)
	case "cli-error":
		// the real binary with its default progress bars; one store write of the command fails: the command must
		// report the error and exit (a stuck process is judged by the goroutine dump it prints on SIGQUIT)
		dir := filepath.Join(env.Dir, "clierr-"+c.ID)
		os.RemoveAll(dir)
		os.MkdirAll(dir, 0755)
		defer os.RemoveAll(dir)
		setup := [][]string{{"init"}, {"config", "set", "user.name", "V"}, {"config", "set", "user.email", "v@example.com"}}
		os.WriteFile(filepath.Join(dir, "a.csv"), c16Table(p.Blocks, 1), 0644)
		os.WriteFile(filepath.Join(dir, "b.csv"), c16Table(p.Blocks, 2), 0644)
		w := fmt.Sprint(p.Workers)
		cmd := []string{"commit", "main", "a.csv", "one", "-p", "id", "-n", w}
		if p.Cmd == "merge" {
			setup = append(setup, []string{"commit", "main", "a.csv", "one", "-p", "id", "-n", w, "--no-progress"}, []string{"branch", "create", "other", "main"},
				[]string{"commit", "other", "b.csv", "two", "-p", "id", "-n", w, "--no-progress"}, []string{"commit", "main", "b.csv", "three", "-p", "id", "-n", w, "--no-progress"},
				[]string{"commit", "other", "a.csv", "four", "-p", "id", "-n", w, "--no-progress"})
			cmd = []string{"merge", "main", "other", "--no-gui", "-n", w}
		}
		for _, st := range setup {
			if r := runWrglProc(env, dir, nil, st...); r.exit != 0 {
				o.Status = "inconclusive"
				o.Note = fmt.Sprintf("setup %v: %s", st, tailStr(r.out, 300))
				return o
			}
		}
		r := runWrglProc(env, dir, []string{"VERIF_FAIL_AT=" + fmt.Sprint(p.FailAt)}, cmd...)
		o.Ev("oracle_evaluations", 1)
		o.Ev("cli_commands_with_injected_error", 1)
		switch {
		case r.timedOut && parkedInWrgl(r.out):
			o.Violate("deadlock/cli-"+p.Cmd+"-error", "wrgl %v with store write %d failing did not exit; goroutines parked in wrgl code:\n%s", cmd, p.FailAt, tailStr(r.out, 5000))
		case r.timedOut:
			o.Status = "inconclusive"
			o.Note = "command did not exit within the watchdog and no goroutine is parked in wrgl code"
		case strings.Contains(r.out, "panic:") || strings.Contains(r.out, "fatal error:"):
			o.Violate("panic-on-store-error/cli-"+p.Cmd, "write %d: %s", p.FailAt, tailStr(r.out, 3000))
		case r.exit == 0 && strings.Contains(r.out, "injected"):
			o.Violate("worker-error-not-reported/cli-"+p.Cmd, "write %d failed, the error was printed but the command exited 0: %s", p.FailAt, tailStr(r.out, 600))
		case r.exit == 0:
			o.Ev("cli_error_position_not_reached", 1)
		default:
			o.Ev("injected_errors_reported", 1)
		}
		o.Key("cli-error/%s/w%d/b%d/f%d", p.Cmd, p.Workers, p.Blocks, p.FailAt)
	}
	if p.Count {
		for site, n := range verifhook.YieldHits() {
			o.Ev("yield_hits_"+site, n)
		}
	}
	return o
}

func init() {
	fw.Register(&fw.Property{
		ID:          "C16",
		Level:       "exploration",
		Race:        true,
		Env:         []string{"VERIF_YIELD_SEED=20260929"},
		Rule:        "under the Go race detector (halt_on_error=0, reports attributed to the case by reading the race log after each case and classified by the accessing frames): ingest of 1/2/10/41/200-block tables with worker settings {1,2,3,4,6,10,18} x GOMAXPROCS {1,2,4,16} x yield seeds (verifhook.Yield at the shared-state touch points picks nothing / Gosched / 10-300 us sleep without adding synchronisation) on the mutex-protected memory store and on badger, with real progress bars attached; differ (drained together with a 1 ms progress tracker, single or joined, and stopped after a pause) and merger (2-3 branches, columns asked for right after the first message) on multi-block tables; the real commit/diff/merge commands in-process with default progress bars (a real merge whose result is ingested, a diff of two files into the in-memory store); every result compared with the unperturbed single-worker run (table id, structural monitor, diff event multiset, merge rows and conflicts); a store error injected at every write position of a 10-block ingest (with everything in memory and with the sorter merging spill files), and of the real binary's commit / merge with default progress bars, must surface as an error and return; hangs are judged by goroutine state, not by time; distinct_nontrivial = distinct (pipeline, workers, blocks, GOMAXPROCS, yield seed) runs",
		Assumptions: []string{"schedules are sampled (widened by yields and GOMAXPROCS), not enumerated", "the detector only understands synchronisation it intercepts (wrgl uses channels, sync and atomics only)"},
		Workers:     6,
		Gen: func(tier string, seed int64) []fw.Case {
			l := fw.NewCaseList("C16", tier, seed)
			rng := l.Rng()
			workerSet := []int{1, 2, 3, 4, 6, 10, 18}
			procSet := []int{1, 2, 4, 16}
			blocks := []int{1, 2, 10, 41}
			nseeds := l.N(3, 30)
			for _, b := range blocks {
				for _, w := range workerSet {
					for s := 0; s < nseeds; s++ {
						p := c16Params{Pipeline: "ingest", Blocks: b, Workers: w, Procs: procSet[rng.Intn(4)], Yield: uint64(1 + rng.Intn(1<<30)), Store: "mem", Bars: rng.Intn(2) == 0}
						if rng.Intn(8) == 0 {
							p.Store = "badger"
						}
						l.Add("ingest", p, 0)
					}
				}
			}
			for i := 0; i < l.N(1, 6); i++ {
				l.Add("ingest", c16Params{Pipeline: "ingest", Blocks: 200, Workers: workerSet[3+rng.Intn(4)], Procs: 16, Yield: uint64(1 + rng.Intn(1<<30)), Store: "mem", Bars: true}, 0)
			}
			// yield hit counting (plain counting mode)
			l.Add("count", c16Params{Pipeline: "ingest", Blocks: 10, Workers: 6, Procs: 4, Yield: 7, Store: "mem", Count: true}, 0)
			l.Add("count", c16Params{Pipeline: "diff", Blocks: 3, Procs: 4, Yield: 7, Count: true}, 0)
			l.Add("count", c16Params{Pipeline: "merge", Blocks: 2, Procs: 4, Yield: 7, Count: true}, 0)
			// error injection at every write position of a 10-block table
			writes := 10*2 + 3
			step := 1
			if tier == "quick" {
				step = 2
			}
			for j := 1; j <= writes; j += step {
				l.Add("ingest-error", c16Params{Pipeline: "ingest-error", Blocks: 10, Workers: []int{4, 6, 10}[j%3], Procs: 4, Yield: uint64(100 + j), Store: "mem", FailAt: j}, 0)
				l.Add("ingest-error", c16Params{Pipeline: "ingest-error", Blocks: 10, Workers: []int{3, 4, 6}[j%3], Procs: 4, Yield: uint64(200 + j), Store: "mem", FailAt: j, Spill: true}, 0)
			}
			for _, fa := range []int{1, 3, 5, 8, 12, 20, 40, 80} {
				l.Add("merge-error", c16Params{Pipeline: "merge-error", Procs: 4, FailAt: fa}, 0)
				l.Add("merge-error", c16Params{Pipeline: "merge-error", Procs: 2, FailAt: fa + 1}, 0)
				l.Add("diff-error", c16Params{Pipeline: "diff-error", Procs: 4, FailAt: fa}, 0)
			}
			for i := 0; i < l.N(12, 300); i++ {
				l.Add("diff", c16Params{Pipeline: "diff", Blocks: 2 + rng.Intn(3), Procs: procSet[rng.Intn(4)], Yield: uint64(1 + rng.Intn(1<<30))}, 0)
				l.Add("merge", c16Params{Pipeline: "merge", Blocks: 2 + rng.Intn(2), Procs: procSet[rng.Intn(4)], Yield: uint64(1 + rng.Intn(1<<30))}, 0)
			}
			// the real binary, default progress bars, one failing store write at every position
			cliWrites := 4*2 + 5
			for j := 1; j <= cliWrites; j += step {
				l.Add("cli-error", c16Params{Pipeline: "cli-error", Cmd: "commit", Blocks: 4, Workers: []int{3, 4, 6}[j%3], FailAt: j}, 0)
			}
			for j := 1; j <= 12; j += 2 * step {
				l.Add("cli-error", c16Params{Pipeline: "cli-error", Cmd: "merge", Blocks: 2, Workers: 4, FailAt: j}, 0)
			}
			for i := 0; i < l.N(4, 80); i++ {
				l.Add("cli", c16Params{Pipeline: "cli", Blocks: 3 + rng.Intn(8), Workers: []int{4, 6, 10}[rng.Intn(3)], Procs: procSet[1+rng.Intn(3)], Yield: uint64(1 + rng.Intn(1<<30))}, 0)
			}
			return l.Cases
		},
		Post: func(tier string, obs []*fw.Obs, agg *fw.Obs) []string {
			var inc []string
			hits := map[string]int64{}
			orders := map[string]bool{}
			for _, o := range obs {
				for k, v := range o.Events {
					if strings.HasPrefix(k, "yield_hits_") {
						hits[k] += v
					}
				}
				for _, v := range o.Sets["completion_orders"] {
					orders[v] = true
				}
			}
			for _, site := range []string{"inserter.afterSaveBlock", "inserter.beforeAppend", "inserter.afterAppend", "sorter.sendBlock", "sorter.sendRows", "differ.firstPass", "differ.secondPass", "merger.afterRecv", "merger.sendMerge"} {
				if hits["yield_hits_"+site] == 0 {
					inc = append(inc, "yield site never reached: "+site)
				}
			}
			if len(orders) < 20 {
				inc = append(inc, fmt.Sprintf("only %d distinct completion orders observed (floor 20)", len(orders)))
			}
			return inc
		},
		CaseTimeoutS: 1200,
		Run:          c16Run,
	})
}
