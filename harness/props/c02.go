package props

import (
	"bytes"
	"fmt"
	"math/rand"
	"os"
	"os/exec"
	"path/filepath"
	"sort"
	"strings"
	"time"

	"verif/fw"
	"verif/gen"
	"verif/mon"

	"github.com/wrgl/wrgl/pkg/objects"
)

// C02 — a table's identity depends only on its logical content.

type c02Params struct {
	T    tblSpec `json:"t"`
	Mode string  `json:"mode"` // invariance | cli-nochange
}

func sortedRows(rows [][]string) [][]string {
	r := append([][]string(nil), rows...)
	sort.Slice(r, func(i, j int) bool {
		for k := range r[i] {
			if r[i][k] != r[j][k] {
				return r[i][k] < r[j][k]
			}
		}
		return false
	})
	return r
}

func reversed(rows [][]string) [][]string {
	r := make([][]string, len(rows))
	for i := range rows {
		r[len(rows)-1-i] = rows[i]
	}
	return r
}

func storeKeys(m map[string][]byte) string {
	ks := make([]string, 0, len(m))
	for k := range m {
		ks = append(ks, k)
	}
	sort.Strings(ks)
	return strings.Join(ks, "\x00")
}

func c02Run(c *fw.Case, env *fw.Env) *fw.Obs {
	o := fw.NewObs(c)
	var p c02Params
	c.P(&p)
	if p.Mode == "cli-nochange" {
		return c02CLI(c, env, o, &p)
	}
	rng := c.Rand()
	t := p.T.build()
	// the logical table is what the CSV says (CR LF inside a cell reads back as LF), as a fixed point
	// because every variant is written out and read again
	t = gen.Normalize(t)
	if gen.Model(t.Rows, p.T.PK, len(t.Cols)).Dups > 0 {
		o.Note = "keys collide after CSV normalisation; skipped"
		o.Ev("skipped_nonunique", 1)
		return o
	}
	class := pkClass(p.T.PK) + "/" + sizeClass(len(t.Rows))
	type variant struct {
		name string
		rows [][]string
		cfg  ingCfg
	}
	base := ingCfg{Chunks: "none", Workers: 1, Store: "mem", Via: "pkg"}
	vs := []variant{{"base", t.Rows, base}, {"reversed", reversed(t.Rows), base}, {"sorted", sortedRows(t.Rows), base}}
	for i := 0; i < 5; i++ {
		vs = append(vs, variant{fmt.Sprintf("perm%d", i), gen.Shuffle(rng, t.Rows), randIngCfg(rng, len(t.Rows))})
	}
	for _, ch := range []string{"one", "two", "five", "every", "exact", "auto"} {
		if ch == "every" && len(t.Rows) > 600 {
			continue
		}
		vs = append(vs, variant{"chunks-" + ch, gen.Shuffle(rng, t.Rows), ingCfg{Chunks: ch, Workers: 1, Store: "mem", Via: "pkg"}})
	}
	for _, w := range []int{2, 3, 4, 8, 16} {
		vs = append(vs, variant{fmt.Sprintf("workers-%d", w), t.Rows, ingCfg{Chunks: "none", Workers: w, Store: "mem", Via: "pkg"}})
	}
	for _, d := range []string{"|", ";", "\t", "\u00a6"} {
		vs = append(vs, variant{"delim-" + d, t.Rows, ingCfg{Chunks: "two", Workers: 4, Store: "mem", Via: "pkg", Delim: d}})
	}
	if c.Seed%5 == 0 {
		vs = append(vs, variant{"badger", t.Rows, ingCfg{Chunks: "one", Workers: 4, Store: "badger", Via: "pkg"}})
	}
	if c.Seed%7 == 0 && len(t.Cols) > 1 {
		vs = append(vs, variant{"cli", gen.Shuffle(rng, t.Rows), ingCfg{Chunks: "two", Workers: 8, Store: "badger", Via: "cli"}})
	}
	if c.Seed%5 == 1 && len(t.Cols) > 1 {
		vs = append(vs, variant{"cli-delim", gen.Shuffle(rng, t.Rows), ingCfg{Chunks: "none", Workers: 3, Store: "badger", Via: "cli", Delim: "\u00a6"}})
	}
	pkNames := gen.ColNames(t.Cols, p.T.PK)
	var baseSum []byte
	var baseStore *mon.MemStore
	for _, v := range vs {
		vt := &gen.Table{Cols: t.Cols, Rows: v.rows}
		csvBytes := gen.ToCSV(vt, delimRune(v.cfg.Delim))
		res := runIngest(env, c.ID+"-"+v.name, csvBytes, pkNames, v.cfg, nil)
		o.Ev("oracle_evaluations", 1)
		o.Set("config", v.name)
		if res.Panic != "" || res.Err != nil {
			o.Violate("ingest-failed/"+v.name+"/"+class, "variant %s: err=%v panic=%s", v.name, res.Err, res.Panic)
			res.Close()
			continue
		}
		if v.name == "base" {
			baseSum = res.Sum
			baseStore = res.DB.(*mon.MemStore)
			// the base table itself must be sound, otherwise equal sums prove little
			if _, issues := mon.CheckTable(res.DB, res.Sum, mon.CheckOpts{}); len(issues) > 0 {
				o.Violate("structure/"+issues[0].Clause+"/IngestTable/"+class, "%s", issues[0].Detail)
			}
		} else if !bytes.Equal(res.Sum, baseSum) {
			vclass := v.name
			if i := strings.IndexByte(vclass, '-'); i > 0 {
				vclass = vclass[:i]
			}
			if strings.HasPrefix(vclass, "perm") {
				vclass = "perm"
			}
			o.Violate("sum-differs/"+vclass+"/"+class, "variant %s (cfg %s) gave table %x, base gave %x for the same logical table (%d rows, pk %v)", v.name, cfgString(v.cfg), res.Sum, baseSum, len(t.Rows), pkNames)
		}
		res.Close()
	}
	if baseStore == nil || baseSum == nil {
		return o
	}
	// idempotence: ingesting again into the same store adds no key
	before := storeKeys(baseStore.Snapshot())
	res := runIngest(env, c.ID+"-again", gen.ToCSV(&gen.Table{Cols: t.Cols, Rows: gen.Shuffle(rng, t.Rows)}, 0), pkNames, ingCfg{Chunks: "two", Workers: 4, Store: "mem", Via: "pkg"}, baseStore)
	if res.Err == nil && res.Panic == "" {
		if after := storeKeys(baseStore.Snapshot()); after != before {
			o.Violate("store-keys-change-on-reingest/IngestTable/"+class, "second ingest of the same table changed the object key set (%d -> %d bytes of keys)", len(before), len(after))
		}
		o.Ev("reingest_checks", 1)
	}
	// sensitivity: single mutations give different sums
	if len(t.Rows) > 0 {
		type mutant struct {
			name string
			t    *gen.Table
			pk   []int
		}
		var ms []mutant
		m := t.Clone()
		ri, ci := rng.Intn(len(m.Rows)), rng.Intn(len(m.Cols))
		isKey := false
		for _, k := range p.T.PK {
			if k == ci {
				isKey = true
			}
		}
		if !isKey && len(p.T.PK) > 0 {
			cell := []byte(m.Rows[ri][ci] + "a")
			cell[0] ^= 1
			m.Rows[ri][ci] = string(cell)
			ms = append(ms, mutant{"cell", m, p.T.PK})
		}
		m = t.Clone()
		m.Cols[rng.Intn(len(m.Cols))] += "_x"
		ms = append(ms, mutant{"colname", m, p.T.PK})
		if len(t.Cols) >= 2 {
			m = t.Clone()
			a, b := 0, 1+rng.Intn(len(t.Cols)-1)
			m.Cols[a], m.Cols[b] = m.Cols[b], m.Cols[a]
			for _, r := range m.Rows {
				r[a], r[b] = r[b], r[a]
			}
			// key columns follow their names
			pk := make([]int, len(p.T.PK))
			for i, k := range p.T.PK {
				switch k {
				case a:
					pk[i] = b
				case b:
					pk[i] = a
				default:
					pk[i] = k
				}
			}
			ms = append(ms, mutant{"colswap", m, pk})
		}
		m = t.Clone()
		m.Rows = m.Rows[:len(m.Rows)-1]
		ms = append(ms, mutant{"rowremoved", m, p.T.PK})
		if len(p.T.PK) >= 2 {
			pk := append([]int(nil), p.T.PK...)
			pk[0], pk[1] = pk[1], pk[0]
			ms = append(ms, mutant{"keyorder", t, pk})
		}
		if len(p.T.PK) >= 1 {
			ms = append(ms, mutant{"keydropped", t, p.T.PK[1:]})
		}
		for _, mu := range ms {
			// a mutant must still be well-formed for its key (unique keys): skip if not
			if gen.Model(mu.t.Rows, mu.pk, len(mu.t.Cols)).Dups > 0 {
				continue
			}
			res := runIngest(env, c.ID+"-mut", gen.ToCSV(mu.t, 0), gen.ColNames(mu.t.Cols, mu.pk), base, nil)
			o.Ev("oracle_evaluations", 1)
			o.Ev("mutants", 1)
			if res.Err != nil || res.Panic != "" {
				continue
			}
			if bytes.Equal(res.Sum, baseSum) {
				o.Violate("sum-equal-for-different-table/"+mu.name+"/"+class, "mutant %s has the same table id %x as the original", mu.name, baseSum)
			}
		}
	}
	if len(t.Rows) >= 2 {
		o.Key("%s/%d", class, p.T.TableSeed%1000000)
	}
	o.Ev("variants", int64(len(vs)))
	o.Sample = map[string]interface{}{"rows": len(t.Rows), "cols": len(t.Cols), "pk": pkNames, "variants": len(vs), "table": fmt.Sprintf("%x", baseSum)}
	return o
}

func c02CLI(c *fw.Case, env *fw.Env, o *fw.Obs, p *c02Params) *fw.Obs {
	t := gen.Normalize(p.T.build())
	if len(t.Cols) < 2 || gen.Model(t.Rows, p.T.PK, len(t.Cols)).Dups > 0 {
		// one-column CSVs lose blank-line rows; keys colliding after CSV normalisation are not "the same set of rows"
		t = (&tblSpec{Rows: 10 + int(c.Seed%300), NCols: 2, PK: []int{0}, Unique: true, TableSeed: c.Seed}).build()
		p.T.PK = []int{0}
	}
	class := pkClass(p.T.PK) + "/" + sizeClass(len(t.Rows))
	root := filepath.Join(env.Dir, "repo-"+c.ID)
	os.RemoveAll(root)
	defer os.RemoveAll(root)
	wd, err := mon.NewRepo(root)
	if err != nil {
		o.Status = "inconclusive"
		o.Note = err.Error()
		return o
	}
	fp := filepath.Join(root, "data.csv")
	if c.Seed%2 == 0 {
		// the branch's file is a symbolic link; edits go to its target, as an editor writing in place does
		os.WriteFile(filepath.Join(root, "real.csv"), nil, 0644)
		os.Symlink(filepath.Join(root, "real.csv"), fp)
		// the link itself is old (its own mtime never changes when the target is edited)
		exec.Command("touch", "-h", "-d", "2017-07-14 02:40:00", fp).Run()
		class += "/symlink"
	}
	os.WriteFile(fp, gen.ToCSV(t, 0), 0644)
	args := []string{"commit", "main", fp, "first", "--no-progress", "--set-file", "--set-primary-key", "-n", "4"}
	pkNames := gen.ColNames(t.Cols, p.T.PK)
	if len(pkNames) > 0 {
		args = append(args, "-p", strings.Join(pkNames, ","))
	}
	if out, err, pn := mon.Wrgl(wd, nil, args...); err != nil || pn != "" {
		o.Violate("commit-failed/wrgl-commit/"+class, "first commit: %v %s %s", err, pn, out)
		return o
	}
	snap := func() (string, int) {
		rd, _ := mon.OpenRepo(wd)
		defer rd.Close()
		rs := rd.OpenRefStore()
		v, _ := rs.Get("heads/main")
		n := 0
		if lr, err := rs.LogReader("heads/main"); err == nil {
			for {
				if _, err := lr.Read(); err != nil {
					break
				}
				n++
			}
			lr.Close()
		}
		return fmt.Sprintf("%x", v), n
	}
	h1, n1 := snap()
	// same rows, different order and file mtime: no change
	rng := rand.New(rand.NewSource(c.Seed))
	os.WriteFile(fp, gen.ToCSV(&gen.Table{Cols: t.Cols, Rows: gen.Shuffle(rng, t.Rows)}, 0), 0644)
	out, err, pn := mon.Wrgl(wd, nil, "commit", "main", "second", "--no-progress", "-n", "8", "--mem-limit", "64")
	o.Ev("oracle_evaluations", 1)
	if err != nil || pn != "" {
		o.Violate("commit-failed/wrgl-commit/"+class, "second commit: %v %s %s", err, pn, out)
		return o
	}
	h2, n2 := snap()
	if !strings.Contains(out, "hasn't changed") || h2 != h1 || n2 != n1 {
		o.Violate("unchanged-data-not-detected/wrgl-commit/"+class, "re-commit of permuted identical data: output %q, head %s -> %s, reflog entries %d -> %d", out, h1, h2, n1, n2)
	}
	// a one-cell change is a change
	if len(t.Rows) > 0 {
		m := t.Clone()
		m.Rows[0][len(m.Cols)-1] += "!"
		if gen.Model(m.Rows, p.T.PK, len(m.Cols)).Dups == 0 {
			os.WriteFile(fp, gen.ToCSV(m, 0), 0644)
			// the edit is two seconds younger than the cache entry made by the previous step (set explicitly, so that the
			// step does not depend on how fast the machine is); the cached commit must notice it
			if h, err := mon.OpenRepoHandle(wd); err == nil {
				if tmp, err := h.RS.Get("heads/main-tmp"); err == nil {
					if com, err := objects.GetCommit(h.DB, tmp); err == nil {
						mt := time.Unix(com.Time.Unix()+2, 0)
						os.Chtimes(fp, mt, mt)
					}
				}
				h.Close()
			}
			out, err, pn = mon.Wrgl(wd, nil, "commit", "main", "third", "--no-progress")
			h3, n3 := snap()
			o.Ev("oracle_evaluations", 1)
			if err != nil || pn != "" || h3 == h2 || n3 != n2+1 {
				o.Violate("changed-data-not-committed/wrgl-commit/"+class, "commit after a one-cell edit: err=%v output %q head %s -> %s reflog %d -> %d", err, out, h2, h3, n2, n3)
			}
		}
	}
	// the same file under another primary key is another table: after the branch's key is reconfigured, the cached
	// two-argument commit must produce the table a direct ingest with that key produces
	final, _ := os.ReadFile(fp)
	fcols, frows, _ := gen.ParseCSV(final, 0)
	// the file is older than any cache entry from here on (wrgl keeps a cache entry only while the file's mtime does not
	// lie after the entry's whole-second time; without this the steps below would depend on where in a second they run)
	old := time.Unix(1500000000, 0)
	os.Chtimes(fp, old, old)
	mon.Wrgl(wd, nil, "commit", "main", "refresh the cache", "--no-progress")
	var alts [][]int
	if len(p.T.PK) >= 2 {
		alts = append(alts, p.T.PK[:1], []int{p.T.PK[1], p.T.PK[0]}, p.T.PK)
	}
	if len(p.T.PK) >= 1 {
		alts = append(alts, nil, p.T.PK)
	}
	for _, alt := range alts {
		names := gen.ColNames(fcols, alt)
		var cerr error
		var cpn, cout string
		if len(names) == 0 {
			cout, cerr, cpn = mon.Wrgl(wd, nil, "config", "unset", "branch.main.primaryKey", "--all")
		} else {
			cout, cerr, cpn = mon.Wrgl(wd, nil, "config", "set", "branch.main.primaryKey", strings.Join(names, ","))
		}
		if cerr != nil || cpn != "" {
			o.Status = "inconclusive"
			o.Note = fmt.Sprintf("config: %v %s %s", cerr, cpn, cout)
			break
		}
		hb, _ := snap()
		out, err, pn = mon.Wrgl(wd, nil, "commit", "main", "rekey", "--no-progress", "-n", "3")
		o.Ev("oracle_evaluations", 1)
		o.Ev("cli_rekey_steps", 1)
		if err != nil || pn != "" {
			o.Violate("commit-failed/wrgl-commit-rekey/"+class, "commit after the key became %v: %v %s %s", names, err, pn, out)
			break
		}
		ha, _ := snap()
		h, err := mon.OpenRepoHandle(wd)
		if err != nil {
			break
		}
		var gotPK []string
		var gotSum []byte
		if head, err := h.RS.Get("heads/main"); err == nil {
			if com, err := objects.GetCommit(h.DB, head); err == nil {
				gotSum = com.Table
				if tb, err := objects.GetTable(h.DB, com.Table); err == nil {
					gotPK = tb.PrimaryKey()
				}
			}
		}
		h.Close()
		if strings.Join(gotPK, "\x00") != strings.Join(names, "\x00") || ha == hb || strings.Contains(out, "hasn't changed") {
			o.Violate("key-change-not-committed/wrgl-commit/"+class, "branch key reconfigured to %v, unchanged file committed through the cache: output %q, head %s -> %s, head table key %v", names, strings.TrimSpace(out), hb, ha, gotPK)
			break
		}
		if gen.Model(frows, alt, len(fcols)).Dups == 0 {
			want, werr, wpn := mon.Ingest(mon.NewMemStore(), final, mon.IngestCfg{PK: names, Workers: 1})
			if werr == nil && wpn == "" && !bytes.Equal(want, gotSum) {
				o.Violate("sum-differs/rekey/"+class, "branch-file commit with key %v gave table %x, a direct ingest of the same file gives %x", names, gotSum, want)
				break
			}
		}
	}
	o.Ev("cli_nochange_cases", 1)
	o.Key("cli/%s/%d", class, p.T.TableSeed%1000000)
	o.Sample = map[string]interface{}{"mode": "cli-nochange", "rows": len(t.Rows), "output": strings.TrimSpace(out)}
	return o
}

func init() {
	fw.Register(&fw.Property{
		ID:          "C02",
		Level:       "exploration",
		Rule:        "per generated base table with unique keys (1..2000 rows): >=20 ingests of the same logical table under row permutations (reversed, sorted, random), run sizes (0..one-chunk-per-row spills, auto), workers {1,2,3,4,8,16}, delimiters, badger and CLI samples - all sums must be equal; re-ingest into the same store must not change the key set; single mutations (cell, column name, column swap, row removed, key order, key dropped) must change the sum; through the CLI (branch file plain or behind a symbolic link) a permuted re-commit of a branch file must report 'hasn't changed' and leave ref and reflog untouched, a cached commit after an edit dated two seconds after the cache entry must commit it, and after the branch's key is reconfigured (subset, reversed pair, none, original) the cached commit of the unchanged file must produce the head table with that key and the id a direct ingest gives; distinct_nontrivial = distinct base tables with >=2 rows",
		Assumptions: []string{"collision resistance of the meow hash is assumed, not tested", "keys are unique in the generated tables"},
		Gen: func(tier string, seed int64) []fw.Case {
			l := fw.NewCaseList("C02", tier, seed)
			rng := l.Rng()
			for i := 0; i < l.N(60, 2000); i++ {
				s := randTblSpec(rng, true)
				if s.Rows > 1300 {
					s.Rows = 1300
				}
				l.Add("invariance", c02Params{T: s, Mode: "invariance"}, 0)
			}
			for i := 0; i < l.N(14, 200); i++ {
				s := randTblSpec(rng, true)
				if s.NCols == 1 {
					s.NCols = 2
				}
				if i%2 == 0 {
					s.NCols = max(s.NCols, 3)
					s.PK = []int{1, 0} // composite, so that subset / reorder / no key are all exercised
				}
				l.Add("cli-nochange", c02Params{T: s, Mode: "cli-nochange"}, 0)
			}
			return l.Cases
		},
		Run: c02Run,
	})
}
