package props

import (
	"bytes"
	"context"
	"fmt"
	"math/rand"
	"os"
	"path/filepath"
	"sort"
	"strings"
	"time"

	"github.com/go-logr/logr"
	"github.com/wrgl/wrgl/pkg/diff"
	"github.com/wrgl/wrgl/pkg/ingest"
	"github.com/wrgl/wrgl/pkg/merge"
	"github.com/wrgl/wrgl/pkg/objects"
	"github.com/wrgl/wrgl/pkg/slice"
	"github.com/wrgl/wrgl/pkg/sorter"

	"verif/fw"
	"verif/gen"
	"verif/model"
	"verif/mon"
)

// C05 — three-way merge keeps all non-conflicting changes, never silently alters data.

type c05Params struct {
	Rows      int        `json:"rows"`
	NCols     int        `json:"ncols"`
	PK        []int      `json:"pk"` // key column positions in the base; empty = keyless
	Branches  int        `json:"branches"`
	Ops       []string   `json:"ops"` // allowed op kinds: edit remove add coladd colremove reorder rename conflict samecell remove-vs-edit sameadd
	Intensity int        `json:"intensity"`
	Output    string     `json:"output"`             // blocks | rows | cli
	Swap      bool       `json:"swap"`               // list the branches in reverse order
	Identity  string     `json:"identity,omitempty"` // "", "X-base", "X-X"
	Forced    []forcedOp `json:"forced,omitempty"`   // operations applied first, in this order
	Damage    int        `json:"damage,omitempty"`   // cli: an object is removed from the store before the merge: 1 = a block index, 2 = a block, 3 = the table index of the other branch's table; 4 = a block of the base table, 5 = a block of the merged-into branch's table
	NoFF      string     `json:"no_ff,omitempty"`    // cli + X-base: the unchanged branch stays at the base commit and fast-forward is disabled by "flag" or "config"
}

type forcedOp struct {
	Branch int    `json:"branch"`
	Op     string `json:"op"`
}

type branchScript struct {
	t   *model.Tbl
	ops []string
}

func cloneTbl(t *model.Tbl) *model.Tbl {
	c := &model.Tbl{Cols: append([]string(nil), t.Cols...), PK: append([]string(nil), t.PK...)}
	for _, r := range t.Rows {
		c.Rows = append(c.Rows, append([]string(nil), r...))
	}
	return c
}

func has(sl []string, s string) bool {
	for _, x := range sl {
		if x == s {
			return true
		}
	}
	return false
}

// genMergeTuple builds a base and branch tables by seeded edit scripts.
func genMergeTuple(rng *rand.Rand, p *c05Params) (*model.Tbl, []*model.Tbl, [][]string) {
	gt := gen.GenTable(rng, gen.Opts{Rows: p.Rows, NCols: p.NCols, Style: gen.CellSimple, PK: p.PK, UniqueKey: true})
	base := &model.Tbl{Cols: gt.Cols, PK: gen.ColNames(gt.Cols, p.PK), Rows: gt.Rows}
	isKey := map[string]bool{}
	for _, k := range base.PK {
		isKey[k] = true
	}
	var nonKey []string
	for _, c := range base.Cols {
		if !isKey[c] {
			nonKey = append(nonKey, c)
		}
	}
	keyless := len(base.PK) == 0
	// empty cells in the base: an empty string is a value like any other
	if !keyless && len(nonKey) > 0 {
		for _, r := range base.Rows {
			if rng.Intn(8) == 0 {
				for ci, c := range base.Cols {
					if c == nonKey[rng.Intn(len(nonKey))] {
						r[ci] = ""
					}
				}
			}
		}
	}
	branches := make([]*model.Tbl, p.Branches)
	scripts := make([][]string, p.Branches)
	for i := range branches {
		branches[i] = cloneTbl(base)
	}
	colIdx := func(t *model.Tbl, name string) int {
		for i, c := range t.Cols {
			if c == name {
				return i
			}
		}
		return -1
	}
	rowOfKey := func(t *model.Tbl, key string) int {
		for i, r := range t.Rows {
			if t.KeyOf(r) == key {
				return i
			}
		}
		return -1
	}
	log := func(i int, f string, a ...interface{}) { scripts[i] = append(scripts[i], fmt.Sprintf(f, a...)) }
	newRowCounter := 0
	type opAt struct {
		op string
		br int
	}
	var plan []opAt
	for _, f := range p.Forced {
		plan = append(plan, opAt{f.Op, f.Branch % p.Branches})
	}
	for k := 0; k < p.Intensity; k++ {
		plan = append(plan, opAt{p.Ops[rng.Intn(len(p.Ops))], rng.Intn(p.Branches)})
	}
	for step, pa := range plan {
		op, i := pa.op, pa.br
		b := branches[i]
		switch op {
		case "edit":
			if keyless || len(nonKey) == 0 || len(base.Rows) == 0 {
				continue
			}
			key := base.KeyOf(base.Rows[rng.Intn(len(base.Rows))])
			c := nonKey[rng.Intn(len(nonKey))]
			ri, ci := rowOfKey(b, key), colIdx(b, c)
			if ri < 0 || ci < 0 {
				continue
			}
			b.Rows[ri][ci] = fmt.Sprintf("E%d_%d", i, step)
			if rng.Intn(3) == 0 {
				b.Rows[ri][ci] = "" // clearing a cell is an edit
			}
			log(i, "edit %s.%s = %q", key, c, b.Rows[ri][ci])
		case "remove":
			if len(b.Rows) <= 1 {
				continue
			}
			ri := rng.Intn(len(b.Rows))
			log(i, "remove %s", b.KeyOf(b.Rows[ri]))
			b.Rows = append(b.Rows[:ri], b.Rows[ri+1:]...)
		case "add":
			newRowCounter++
			r := make([]string, len(b.Cols))
			for j := range r {
				r[j] = fmt.Sprintf("N%d_%d_%d", i, newRowCounter, j)
			}
			b.Rows = append(b.Rows, r)
			log(i, "add %s", b.KeyOf(r))
		case "sameadd":
			// every branch adds the same new key; identical content unless a later edit changes it
			if keyless {
				continue
			}
			newRowCounter++
			equalCols := true
			for _, bb := range branches {
				if strings.Join(bb.Cols, ",") != strings.Join(base.Cols, ",") {
					equalCols = false
				}
			}
			if !equalCols {
				continue
			}
			differ := rng.Intn(2) == 0 && len(nonKey) > 0
			for j, bb := range branches {
				r := make([]string, len(bb.Cols))
				for x := range r {
					r[x] = fmt.Sprintf("S%d_%d", newRowCounter, x)
				}
				if differ {
					r[colIdx(bb, nonKey[0])] = fmt.Sprintf("S%d_by%d", newRowCounter, j)
				}
				bb.Rows = append(bb.Rows, r)
				log(j, "sameadd differ=%v", differ)
			}
		case "coladd":
			if keyless && p.Identity != "X-base" {
				continue // what the key of a keyless table is once its columns change is only clear when nothing else happens
			}
			name := fmt.Sprintf("new%d_%d", i, step)
			if rng.Intn(3) == 0 {
				name = "shared_new"
			}
			if colIdx(b, name) >= 0 {
				continue
			}
			pos := rng.Intn(len(b.Cols) + 1)
			b.Cols = append(b.Cols[:pos], append([]string{name}, b.Cols[pos:]...)...)
			for ri, r := range b.Rows {
				v := fmt.Sprintf("A%d", ri%5)
				if name == "shared_new" && rng.Intn(4) == 0 {
					v = fmt.Sprintf("A%d_by%d", ri%5, i)
				}
				b.Rows[ri] = append(r[:pos], append([]string{v}, r[pos:]...)...)
			}
			log(i, "coladd %s at %d", name, pos)
		case "colremove":
			if keyless || len(nonKey) == 0 {
				continue
			}
			c := nonKey[rng.Intn(len(nonKey))]
			ci := colIdx(b, c)
			if ci < 0 || len(b.Cols)-len(b.PK) <= 0 {
				continue
			}
			b.Cols = append(b.Cols[:ci], b.Cols[ci+1:]...)
			for ri, r := range b.Rows {
				b.Rows[ri] = append(r[:ci], r[ci+1:]...)
			}
			log(i, "colremove %s", c)
		case "reorder":
			// keyless tables too: wrgl refuses such a merge (accepted), silently losing rows is not
			perm := rng.Perm(len(b.Cols))
			nc := make([]string, len(b.Cols))
			for j, pj := range perm {
				nc[j] = b.Cols[pj]
			}
			for ri, r := range b.Rows {
				nr := make([]string, len(r))
				for j, pj := range perm {
					nr[j] = r[pj]
				}
				b.Rows[ri] = nr
			}
			b.Cols = nc
			log(i, "reorder %v", perm)
		case "shuffle-add":
			// the shared columns in another order, and a new column directly behind each of two of them
			if keyless || len(b.Cols) < 3 {
				continue
			}
			perm := rng.Perm(len(b.Cols))
			nc := make([]string, 0, len(b.Cols)+2)
			added := 0
			addAfter := map[int]bool{rng.Intn(len(perm)): true, rng.Intn(len(perm)): true}
			var layout []int // index into the old row, or -1-k for the k-th new column
			for j, pj := range perm {
				nc = append(nc, b.Cols[pj])
				layout = append(layout, pj)
				if addAfter[j] {
					nc = append(nc, fmt.Sprintf("sa%d_%d_%d", i, step, added))
					layout = append(layout, -1-added)
					added++
				}
			}
			for ri, r := range b.Rows {
				nr := make([]string, len(layout))
				for j, src := range layout {
					if src >= 0 {
						nr[j] = r[src]
					} else {
						nr[j] = fmt.Sprintf("V%d_%d", ri%4, -src)
					}
				}
				b.Rows[ri] = nr
			}
			b.Cols = nc
			log(i, "shuffle-add %v", nc)
		case "rename":
			if keyless || len(nonKey) == 0 {
				continue
			}
			c := nonKey[rng.Intn(len(nonKey))]
			ci := colIdx(b, c)
			if ci < 0 {
				continue
			}
			b.Cols[ci] = c + "_renamed"
			log(i, "rename %s", c)
		case "conflict", "samecell":
			if keyless || len(nonKey) == 0 || len(base.Rows) == 0 || p.Branches < 2 {
				continue
			}
			key := base.KeyOf(base.Rows[rng.Intn(len(base.Rows))])
			c := nonKey[rng.Intn(len(nonKey))]
			for j, bb := range branches[:2] {
				ri, ci := rowOfKey(bb, key), colIdx(bb, c)
				if ri < 0 || ci < 0 {
					continue
				}
				if op == "conflict" {
					bb.Rows[ri][ci] = fmt.Sprintf("C%d_%d", j, step)
					if step%3 == j {
						bb.Rows[ri][ci] = "" // one side clears the cell, the other rewrites it
					}
				} else {
					bb.Rows[ri][ci] = fmt.Sprintf("SAME_%d", step)
				}
				log(j, "%s %s.%s", op, key, c)
			}
		case "conflict-outer":
			// the first and the last listed branch rewrite one cell differently, the branches between them leave it alone
			if keyless || len(nonKey) == 0 || len(base.Rows) == 0 || p.Branches < 3 {
				continue
			}
			key := base.KeyOf(base.Rows[rng.Intn(len(base.Rows))])
			c := nonKey[rng.Intn(len(nonKey))]
			for _, j := range []int{0, p.Branches - 1} {
				bb := branches[j]
				if ri, ci := rowOfKey(bb, key), colIdx(bb, c); ri >= 0 && ci >= 0 {
					bb.Rows[ri][ci] = fmt.Sprintf("O%d_%d", j, step)
					log(j, "conflict-outer %s.%s", key, c)
				}
			}
		case "remove-vs-edit":
			if keyless || len(nonKey) == 0 || len(base.Rows) == 0 || p.Branches < 2 {
				continue
			}
			key := base.KeyOf(base.Rows[rng.Intn(len(base.Rows))])
			c := nonKey[rng.Intn(len(nonKey))]
			if ri := rowOfKey(branches[0], key); ri >= 0 && len(branches[0].Rows) > 1 {
				branches[0].Rows = append(branches[0].Rows[:ri], branches[0].Rows[ri+1:]...)
				log(0, "remove %s", key)
			}
			if ri, ci := rowOfKey(branches[1], key), colIdx(branches[1], c); ri >= 0 && ci >= 0 {
				branches[1].Rows[ri][ci] = fmt.Sprintf("RVE_%d", step)
				log(1, "edit %s.%s", key, c)
			}
		}
	}
	switch p.Identity {
	case "X-base":
		branches[1] = cloneTbl(base)
		scripts[1] = []string{"= base"}
	case "X-X":
		branches[1] = cloneTbl(branches[0])
		scripts[1] = []string{"= branch 0"}
	}
	if p.Swap {
		for a, z := 0, len(branches)-1; a < z; a, z = a+1, z-1 {
			branches[a], branches[z] = branches[z], branches[a]
			scripts[a], scripts[z] = scripts[z], scripts[a]
		}
	}
	return base, branches, scripts
}

func ingestTbl(db objects.Store, t *model.Tbl) ([]byte, *objects.Table, error) {
	sum, err, pn := mon.Ingest(db, gen.ToCSV(&gen.Table{Cols: t.Cols, Rows: t.Rows}, 0), mon.IngestCfg{PK: t.PK, Workers: 1})
	if err != nil || pn != "" {
		return nil, nil, fmt.Errorf("ingest: %v %s", err, pn)
	}
	tbl, err := objects.GetTable(db, sum)
	return sum, tbl, err
}

type mergeOutcome struct {
	cols      []string
	pk        []string
	rows      [][]string
	conflicts map[string][]string // key hash -> unresolved column names
	tableSum  []byte
}

// mergeStuckAfter is the generous watchdog on the merge channel (a verdict on a hang is by goroutine state, see C16).
var mergeStuckAfter = 180 * time.Second

// runMergePkg drives Merger exactly as cmd/wrgl does for the non-interactive path.
func runMergePkg(db objects.Store, baseSum []byte, baseT *objects.Table, sums [][]byte, tbls []*objects.Table, output string) (out *mergeOutcome, err error) {
	buf, err := diff.BlockBufferWithSingleStore(db, append([]*objects.Table{baseT}, tbls...))
	if err != nil {
		return nil, err
	}
	collector, cleanup, err := merge.CreateRowCollector(db, baseT)
	if err != nil {
		return nil, err
	}
	defer cleanup()
	merger, err := merge.NewMerger(db, collector, buf, 0, baseT, tbls, baseSum, sums, logr.Discard())
	if err != nil {
		return nil, err
	}
	defer merger.Close()
	ch, err := merger.Start()
	if err != nil {
		return nil, fmt.Errorf("Start: %v", err)
	}
	out = &mergeOutcome{conflicts: map[string][]string{}}
	var cd *diff.ColDiff
	timeout := time.After(mergeStuckAfter)
	var conflicts []*merge.Merge
loop:
	for {
		select {
		case m, ok := <-ch:
			if !ok {
				break loop
			}
			if m.ColDiff != nil {
				cd = m.ColDiff
				// as `wrgl merge --no-gui` does: the column list and key are asked for as soon as the first message is in
				if cols := merger.Columns(nil); len(cols) != cd.Len() {
					return nil, fmt.Errorf("Merger.Columns right after the first message lists %d columns, the column diff has %d", len(cols), cd.Len())
				}
				_ = merger.PK()
				continue
			}
			conflicts = append(conflicts, m)
		case <-timeout:
			return nil, fmt.Errorf("STUCK: merge channel not closed after %v", mergeStuckAfter)
		}
	}
	if cd == nil {
		return nil, fmt.Errorf("no ColDiff received")
	}
	for _, m := range conflicts {
		var cols []string
		for u := range m.UnresolvedCols {
			cols = append(cols, cd.Names[u])
		}
		sort.Strings(cols)
		out.conflicts[string(m.PK)] = cols
		if err := merger.SaveResolvedRow(m.PK, nil); err != nil {
			return nil, fmt.Errorf("SaveResolvedRow: %v", err)
		}
	}
	if err := merger.Error(); err != nil {
		return nil, fmt.Errorf("merge error: %v", err)
	}
	removedCols := map[int]struct{}{}
	for _, layer := range cd.Removed {
		for col := range layer {
			removedCols[int(col)] = struct{}{}
		}
	}
	out.cols = merger.Columns(removedCols)
	out.pk = merger.PK()
	ctx, cancel := context.WithCancel(context.Background())
	defer cancel()
	if output == "rows" {
		rc, err := merger.SortedRows(ctx, removedCols)
		if err != nil {
			return nil, fmt.Errorf("SortedRows: %v", err)
		}
		for blk := range rc {
			out.rows = append(out.rows, blk.Rows...)
		}
		if err := merger.Error(); err != nil {
			return nil, fmt.Errorf("sort error: %v", err)
		}
		return out, nil
	}
	pk, err := slice.KeyIndices(out.cols, out.pk)
	if err != nil {
		return nil, fmt.Errorf("KeyIndices: %v", err)
	}
	blocks, err := merger.SortedBlocks(ctx, removedCols)
	if err != nil {
		return nil, fmt.Errorf("SortedBlocks: %v", err)
	}
	s, err := sorter.NewSorter()
	if err != nil {
		return nil, err
	}
	sum, err := ingest.IngestTableFromBlocks(db, s, out.cols, pk, blocks, logr.Discard(), ingest.WithNumWorkers(4))
	if err != nil {
		return nil, fmt.Errorf("IngestTableFromBlocks: %v", err)
	}
	if err := merger.Error(); err != nil {
		return nil, fmt.Errorf("sort error: %v", err)
	}
	out.tableSum = sum
	return out, nil
}

func keyHashOf(t *model.Tbl, row []string) string {
	if len(t.PK) == 0 {
		return string(meowSum(mon.EncodeStrList(row)))
	}
	idx := map[string]int{}
	for i, c := range t.Cols {
		idx[c] = i
	}
	k := make([]string, len(t.PK))
	for i, c := range t.PK {
		k[i] = row[idx[c]]
	}
	return string(meowSum(mon.EncodeStrList(k)))
}

func c05Class(p *c05Params, base *model.Tbl, branches []*model.Tbl) string {
	kp := "keyless"
	if len(p.PK) > 0 {
		kp = "key-first"
		for i, k := range p.PK {
			if k != i {
				kp = "key-not-first"
			}
		}
		if len(p.PK) > 1 && kp == "key-first" {
			kp = "composite-first"
		}
	}
	colsChanged := "cols-same"
	for _, b := range branches {
		if strings.Join(b.Cols, ",") != strings.Join(base.Cols, ",") && colsChanged == "cols-same" {
			colsChanged = "cols-reordered"
		}
		if len(b.Cols) != len(base.Cols) {
			colsChanged = "cols-set-changed"
		}
		bs := map[string]bool{}
		for _, c := range base.Cols {
			bs[c] = true
		}
		for _, c := range b.Cols {
			if !bs[c] {
				colsChanged = "cols-set-changed"
			}
		}
	}
	cls := kp + "/" + colsChanged
	for _, b := range branches {
		for _, c := range b.Cols {
			if strings.HasSuffix(c, "_renamed") {
				return cls + "/renamed-column"
			}
		}
	}
	return cls
}

func c05Run(c *fw.Case, env *fw.Env) *fw.Obs {
	o := fw.NewObs(c)
	var p c05Params
	c.P(&p)
	rng := c.Rand()
	base, branches, scripts := genMergeTuple(rng, &p)
	class := c05Class(&p, base, branches)
	exp := model.Merge3(base, branches)
	o.Sample = map[string]interface{}{"rows": len(base.Rows), "base_cols": base.Cols, "pk": base.PK, "branch_cols": func() [][]string {
		var r [][]string
		for _, b := range branches {
			r = append(r, b.Cols)
		}
		return r
	}(), "scripts": scripts, "output": p.Output, "expected_conflicts": len(exp.MustConf)}

	var out *mergeOutcome
	if p.Output == "cli" {
		var inconclusive string
		out, inconclusive = runMergeCLI(o, env, c.ID, base, branches, exp, class, &p, scripts)
		if inconclusive == "FALLBACK" {
			o.Ev("cli_fallback_to_pkg", 1)
			p.Output = "rows"
			out, inconclusive = nil, ""
		} else if inconclusive != "" {
			o.Status = "inconclusive"
			o.Note = inconclusive
			return o
		}
		if out == nil && p.Output == "cli" {
			return o
		}
	}
	if p.Output != "cli" {
		db := mon.NewMemStore()
		baseSum, baseT, err := ingestTbl(db, base)
		if err != nil {
			o.Status = "inconclusive"
			o.Note = err.Error()
			return o
		}
		var sums [][]byte
		var tbls []*objects.Table
		for _, b := range branches {
			s, t, err := ingestTbl(db, b)
			if err != nil {
				o.Status = "inconclusive"
				o.Note = err.Error()
				return o
			}
			sums = append(sums, s)
			tbls = append(tbls, t)
		}
		var err2 error
		if pn := fw.Catch(func() { out, err2 = runMergePkg(db, baseSum, baseT, sums, tbls, p.Output) }); pn != "" {
			o.Violate("panic/Merger/"+class, "%s\nscripts=%v", pn, scripts)
			return o
		}
		if err2 != nil {
			if strings.HasPrefix(err2.Error(), "STUCK") {
				o.Status = "inconclusive"
				o.Note = err2.Error()
				return o
			}
			if len(base.PK) == 0 && strings.Contains(err2.Error(), "tables without a primary key must have the same columns") {
				// wrgl has no notion of row identity across a column change when there is no key and says so; a refusal
				// alters nothing. (Before the repair recorded in KNOWN_FINDINGS the result silently lost every row.)
				colsChanged := false
				for _, b := range branches {
					if strings.Join(b.Cols, "\x00") != strings.Join(base.Cols, "\x00") {
						colsChanged = true
					}
				}
				if colsChanged {
					o.Ev("keyless_column_change_refused", 1)
					o.Key("refused/%s/%d", class, c.Seed%100000)
					return o
				}
			}
			o.Violate("merge-error/Merger/"+class, "%v\nscripts=%v", err2, scripts)
			return o
		}
		if out.tableSum != nil {
			tc, issues := mon.CheckTable(db, out.tableSum, mon.CheckOpts{Doctor: true})
			for _, is := range issues {
				o.Violate("structure/"+is.Clause+"/merge-result/"+class, "%s\nscripts=%v", is.Detail, scripts)
			}
			if tc == nil {
				return o
			}
			out.rows = tc.Rows
			o.Ev("result_tables_checked", 1)
		}
	}
	o.Ev("oracle_evaluations", 1)
	c05Compare(o, base, branches, exp, out, class, scripts)
	o.Ev("conflicts_expected", int64(len(exp.MustConf)))
	o.Ev("conflicts_observed", int64(len(out.conflicts)))
	o.Ev("rows_untouched_or_merged", int64(len(exp.Present)))
	o.Set("config", class+"/"+p.Output)
	if len(base.Rows) >= 2 {
		o.Key("%s/%s/b%d/%d", class, p.Output, p.Branches, c.Seed%1000000)
	}
	return o
}

func c05Compare(o *fw.Obs, base *model.Tbl, branches []*model.Tbl, exp *model.MergeExpect, out *mergeOutcome, class string, scripts [][]string) {
	// result columns as a set
	gotCols := map[string]bool{}
	for _, c := range out.cols {
		gotCols[c] = true
	}
	if len(gotCols) != len(out.cols) {
		o.Violate("result-columns-duplicated/merge/"+class, "result columns %v", out.cols)
		return
	}
	for c := range exp.Cols {
		if !gotCols[c] {
			o.Violate("result-column-missing/merge/"+class, "expected column %q; result columns %v; scripts=%v", c, out.cols, scripts)
			return
		}
	}
	for c := range gotCols {
		if !exp.Cols[c] {
			o.Violate("result-column-extra/merge/"+class, "unexpected column %q; result columns %v; scripts=%v", c, out.cols, scripts)
			return
		}
	}
	if strings.Join(out.pk, ",") != strings.Join(base.PK, ",") {
		o.Violate("result-key-differs/merge/"+class, "result key %v, base key %v", out.pk, base.PK)
		return
	}
	res := &model.Tbl{Cols: out.cols, PK: base.PK, Rows: out.rows}
	got := map[string]map[string]string{}
	dupKeys := 0
	for _, r := range out.rows {
		if len(r) != len(out.cols) {
			o.Violate("row-width/merge/"+class, "result row %q has %d cells for %d columns", trunc(r), len(r), len(out.cols))
			return
		}
		k := res.KeyOf(r)
		if _, ok := got[k]; ok {
			dupKeys++
		}
		cells := map[string]string{}
		for i, c := range out.cols {
			cells[c] = r[i]
		}
		got[k] = cells
	}
	if dupKeys > 0 {
		o.Violate("key-duplicated/merge/"+class, "%d keys occur more than once in the result", dupKeys)
	}
	// map key strings to key hashes to match the reported conflicts
	keyHash := map[string]string{}
	for _, t := range append([]*model.Tbl{base}, branches...) {
		for _, r := range t.Rows {
			keyHash[t.KeyOf(r)] = keyHashOf(t, r)
		}
	}
	conflictKeys := map[string]bool{}
	for k := range keyHash {
		if _, ok := out.conflicts[keyHash[k]]; ok {
			conflictKeys[k] = true
		}
	}
	for k, cols := range exp.MustConf {
		if !conflictKeys[k] {
			how := "absent from the result"
			if g, ok := got[k]; ok {
				how = fmt.Sprintf("silently resolved to %v", g)
			}
			o.Violate("conflict-not-reported/merge/"+class, "key %v must be a conflict (columns %v) but was not reported and is %s; scripts=%v", exp.KeyCells[k], cols, how, scripts)
			return
		}
		rep := out.conflicts[keyHash[k]]
		for _, c := range cols {
			if !has(rep, c) {
				o.Violate("conflict-column-not-marked/merge/"+class, "key %v: column %q conflicts but unresolved columns reported are %v", exp.KeyCells[k], c, rep)
				return
			}
		}
	}
	for k := range conflictKeys {
		if _, must := exp.MustConf[k]; !must && !exp.MayConf[k] {
			o.Violate("spurious-conflict/merge/"+class, "key %v reported as conflict (cols %v) although the branches' changes do not conflict; scripts=%v", exp.KeyCells[k], out.conflicts[keyHash[k]], scripts)
			return
		}
	}
	for k, row := range exp.Present {
		if conflictKeys[k] {
			continue
		}
		g, ok := got[k]
		if !ok {
			o.Violate("row-lost/merge/"+class, "key %v expected in the result with %v but is absent; scripts=%v", exp.KeyCells[k], row, scripts)
			return
		}
		for c, v := range row {
			if exp.FreeCells[k][c] {
				continue
			}
			if g[c] != v {
				untouched := "changed-row"
				if base != nil {
					untouched = "row"
				}
				o.Violate("cell-altered/merge/"+class, "%s key %v column %q: result %q, expected %q (whole result row %v); scripts=%v", untouched, exp.KeyCells[k], c, g[c], v, g, scripts)
				return
			}
		}
	}
	for k := range exp.Absent {
		if _, ok := got[k]; ok && !conflictKeys[k] {
			o.Violate("removed-row-kept/merge/"+class, "key %v was removed by a branch and untouched by the others but is in the result; scripts=%v", exp.KeyCells[k], scripts)
			return
		}
	}
	for k := range got {
		_, p := exp.Present[k]
		if !p && !exp.Either[k] && !exp.Absent[k] {
			if _, must := exp.MustConf[k]; !must {
				o.Violate("row-invented/merge/"+class, "result holds key %v which no version has; scripts=%v", got[k], scripts)
				return
			}
		}
	}
}

// runMergeCLI drives the same tuple through `wrgl merge` in-process.
func runMergeCLI(o *fw.Obs, env *fw.Env, id string, base *model.Tbl, branches []*model.Tbl, exp *model.MergeExpect, class string, p *c05Params, scripts [][]string) (*mergeOutcome, string) {
	root := filepath.Join(env.Dir, "repo-"+id)
	os.RemoveAll(root)
	defer os.RemoveAll(root)
	wd, err := mon.NewRepo(root)
	if err != nil {
		return nil, err.Error()
	}
	commit := func(branch string, t *model.Tbl) string {
		fp := filepath.Join(root, branch+".csv")
		os.WriteFile(fp, gen.ToCSV(&gen.Table{Cols: t.Cols, Rows: t.Rows}, 0), 0644)
		args := []string{"commit", branch, fp, "c-" + branch, "--no-progress", "-n", "4"}
		if len(t.PK) > 0 {
			args = append(args, "-p", strings.Join(t.PK, ","))
		}
		if out, err, pn := mon.Wrgl(wd, nil, args...); err != nil || pn != "" {
			return fmt.Sprintf("commit %s: %v %s %s", branch, err, pn, out)
		}
		return ""
	}
	if e := commit("b0", base); e != "" {
		return nil, e
	}
	// branch i starts at the base commit: create branches before committing to b0 again
	rd, err := mon.OpenRepo(wd)
	if err != nil {
		return nil, err.Error()
	}
	rs := rd.OpenRefStore()
	baseHead, err := rs.Get("heads/b0")
	if err != nil {
		rd.Close()
		return nil, "no base head"
	}
	for i := range branches {
		if i == 0 {
			continue
		}
		rs.Set(fmt.Sprintf("heads/b%d", i), baseHead)
	}
	rd.Close()
	for i, b := range branches {
		if p.NoFF != "" && len(scripts[i]) == 1 && scripts[i][0] == "= base" {
			continue // this branch IS the base commit: the other one descends from it
		}
		if e := commit(fmt.Sprintf("b%d", i), b); e != "" {
			return nil, e
		}
	}
	if p.NoFF == "config" {
		if out, err, pn := mon.Wrgl(wd, nil, "config", "set", "merge.fastForward", "never"); err != nil || pn != "" {
			return nil, fmt.Sprintf("config: %v %s %s", err, pn, out)
		}
	}
	var headBefore []byte
	if p.Damage != 0 {
		// an object the merge has to read is gone: the command must fail (or, when it never needed the object, be right)
		rd, err := mon.OpenRepo(wd)
		if err != nil {
			return nil, err.Error()
		}
		odb, err := rd.OpenObjectsStore()
		if err != nil {
			rd.Close()
			return nil, err.Error()
		}
		rs := rd.OpenRefStore()
		headBefore, _ = rs.Get("heads/b0")
		done := false
		victim := "heads/b1"
		if p.Damage >= 4 {
			victim = "heads/b0"
		}
		if h, err := rs.Get(victim); err == nil {
			if com, err := objects.GetCommit(odb, h); err == nil {
				if p.Damage == 4 && len(com.Parents) > 0 {
					// the common base
					if pc, err := objects.GetCommit(odb, com.Parents[0]); err == nil {
						com = pc
					}
				}
				if tbl, err := objects.GetTable(odb, com.Table); err == nil && len(tbl.Blocks) > 0 {
					k := int(h[0]) % len(tbl.Blocks)
					switch p.Damage {
					case 1:
						done = objects.DeleteBlockIndex(odb, tbl.BlockIndices[k]) == nil
					case 2, 4, 5:
						done = objects.DeleteBlock(odb, tbl.Blocks[k]) == nil
					default:
						done = objects.DeleteTableIndex(odb, com.Table) == nil
					}
				}
			}
		}
		odb.Close()
		rd.Close()
		if !done {
			return nil, "nothing to damage"
		}
		o.Ev("cli_merges_on_damaged_store", 1)
	}
	// refused reports whether a failed merge is an acceptable outcome of this case; a refusal must leave the branch alone
	refused := func(err error) bool {
		if err == nil {
			return false
		}
		if p.Damage != 0 {
			if rd, e := mon.OpenRepo(wd); e == nil {
				rs := rd.OpenRefStore()
				h, _ := rs.Get("heads/b0")
				rd.Close()
				if !bytes.Equal(h, headBefore) {
					o.Violate("branch-moved-by-failed-merge/wrgl-merge/"+class, "merge failed with %v, heads/b0 %x -> %x", err, headBefore, h)
				}
			}
			o.Ev("cli_damaged_store_refused", 1)
			return true
		}
		if len(base.PK) == 0 && strings.Contains(err.Error(), "tables without a primary key must have the same columns") {
			for _, b := range branches {
				if strings.Join(b.Cols, "\x00") != strings.Join(base.Cols, "\x00") {
					o.Ev("keyless_column_change_refused", 1)
					return true
				}
			}
		}
		return false
	}
	cwd, _ := os.Getwd()
	for _, pat := range []string{"CONFLICTS_*.csv", "MERGE_*.csv"} {
		ms, _ := filepath.Glob(filepath.Join(cwd, pat))
		for _, m := range ms {
			os.Remove(m)
		}
	}
	args := []string{"merge", "b0"}
	for i := 1; i < len(branches); i++ {
		args = append(args, fmt.Sprintf("b%d", i))
	}
	out := &mergeOutcome{conflicts: map[string][]string{}}
	if (len(exp.MustConf) > 0 || len(exp.MayConf) > 0) && p.Damage == 0 {
		// conflicts possible: non-interactive conflict listing; judged on the listed keys only
		args = append(args, "--no-gui", "--no-progress")
		stdout, err, pn := mon.Wrgl(wd, nil, args...)
		if pn != "" {
			o.Violate("panic/wrgl-merge/"+class, "%s", pn)
			return nil, ""
		}
		if refused(err) {
			return nil, ""
		}
		if err != nil {
			o.Violate("merge-error/wrgl-merge/"+class, "%v %s", err, stdout)
			return nil, ""
		}
		ms, _ := filepath.Glob(filepath.Join(cwd, "CONFLICTS_*.csv"))
		if len(ms) != 1 {
			return nil, fmt.Sprintf("expected one CONFLICTS file, found %v (%s)", ms, stdout)
		}
		b, _ := os.ReadFile(ms[0])
		os.Remove(ms[0])
		cols, rows, err := gen.ParseCSV(b, 0)
		if err != nil {
			// rows have varying width? the file is rectangular by construction
			return nil, "CONFLICTS file unparsable: " + err.Error()
		}
		out.cols = cols[1:]
		// the file lists, per conflict, BASE / branch rows / RESOLUTION, then the resolved rows with an empty first cell
		res := &model.Tbl{Cols: out.cols, PK: base.PK}
		removed := map[string]bool{}
		for _, r := range rows {
			switch {
			case r[0] == "":
				out.rows = append(out.rows, r[1:])
			case strings.HasPrefix(r[0], "COLUMNS IN "):
				for j := 1; j < len(r); j++ {
					if r[j] == "REMOVED" {
						removed[out.cols[j-1]] = true
					}
				}
			case strings.HasPrefix(r[0], "BASE ") || r[0] == "RESOLUTION":
				continue
			default:
				if strings.HasPrefix(r[1], "REMOVED IN ") {
					continue
				}
				out.conflicts[keyHashOf(res, r[1:])] = nil
			}
		}
		// --no-gui keeps removed columns in the listing: drop them from the comparison
		var keep []int
		var kc []string
		for j, cn := range out.cols {
			if !removed[cn] {
				keep = append(keep, j)
				kc = append(kc, cn)
			}
		}
		for i, r := range out.rows {
			nr := make([]string, len(keep))
			for x, j := range keep {
				nr[x] = r[j]
			}
			out.rows[i] = nr
		}
		out.cols = kc
		out.pk = base.PK
		o.Ev("cli_conflict_listings", 1)
		// unresolved column names are not in the listing: relax that clause
		for k := range exp.MustConf {
			exp.MustConf[k] = nil
		}
		return out, ""
	}
	args = append(args, "--no-progress", "-n", "4")
	if p.NoFF == "flag" {
		args = append(args, "--no-ff")
	}
	if p.NoFF != "" {
		o.Ev("cli_no_ff_merges", 1)
	}
	var stdout, pn string
	if p.Damage != 0 {
		// the real binary: a failing merge leaves goroutines behind that must not take the harness with them
		r := runWrglProc(env, root, nil, args...)
		stdout = r.out
		if r.exit != 0 {
			err = fmt.Errorf("wrgl merge: exit %d: %s", r.exit, lastLines(r.out, 3))
		} else {
			err = nil
		}
	} else {
		stdout, err, pn = mon.Wrgl(wd, nil, args...)
	}
	if pn != "" {
		o.Violate("panic/wrgl-merge/"+class, "%s", pn)
		return nil, ""
	}
	if err != nil && p.Damage == 0 && strings.Contains(err.Error(), "/dev/tty") {
		// wrgl found a conflict the model does not require and wants its terminal UI:
		// the tuple is judged at package level instead (see DESIGN C05)
		return nil, "FALLBACK"
	}
	if refused(err) {
		return nil, ""
	}
	if err != nil {
		o.Violate("merge-error/wrgl-merge/"+class, "%v %s", err, stdout)
		return nil, ""
	}
	exported, err, pn := mon.Wrgl(wd, nil, "export", "b0")
	if err != nil || pn != "" {
		o.Violate("export-error/wrgl-export/"+class, "%v %s", err, pn)
		return nil, ""
	}
	cols, rows, err := gen.ParseCSV([]byte(exported), 0)
	if err != nil {
		return nil, "export unparsable: " + err.Error()
	}
	out.cols, out.rows, out.pk = cols, rows, base.PK
	// the committed table must be structurally sound
	rd, err = mon.OpenRepo(wd)
	if err == nil {
		odb, err := rd.OpenObjectsStore()
		if err == nil {
			rs := rd.OpenRefStore()
			if head, err := rs.Get("heads/b0"); err == nil {
				if com, err := objects.GetCommit(odb, head); err == nil {
					tc, issues := mon.CheckTable(odb, com.Table, mon.CheckOpts{})
					for _, is := range issues {
						o.Violate("structure/"+is.Clause+"/wrgl-merge/"+class, "%s", is.Detail)
					}
					if tc != nil {
						out.pk = tc.Table.PrimaryKey()
					}
				}
			}
			odb.Close()
		}
		rd.Close()
	}
	o.Ev("cli_merges_committed", 1)
	return out, ""
}

func init() {
	allOps := []string{"edit", "edit", "remove", "add", "coladd", "colremove", "reorder", "shuffle-add", "conflict", "conflict-outer", "samecell", "remove-vs-edit", "sameadd"}
	fw.Register(&fw.Property{
		ID:          "C05",
		Level:       "exploration",
		Rule:        "generated (base, branch1..N) tuples, N in 2..3: base tables of 1..3 blocks with the key column(s) first / middle / last / composite / absent; per branch a seeded edit script touching few rows (cell edits incl. clearing a cell, row adds/removes, column add/remove/reorder/rename, reorder-plus-inserts, the same cell edited identically or differently, remove-vs-edit, the same new key added by all) so that most rows are untouched; driven through merge.Merger + RowCollector exactly as cmd/wrgl does (conflicts dropped, removed columns from ColDiff) with SortedRows, with SortedBlocks + IngestTableFromBlocks (result then goes through the structural monitor), and through in-process `wrgl merge` (+export, or --no-gui CONFLICTS listing); compared with a cell-level reference merge with explicit don't-cares; branch order swapped in half the cases; merge(b;X,b) and merge(b;X,X) included (for keyless tables whose columns change an explicit refusal is accepted, silent loss is not), and through the CLI the ancestor/descendant pair with fast-forward disabled (--no-ff, merge.fastForward=never) in both orders; keyless tables with a branch that reorders the columns; merges by the real binary on a store from which one object of the base, own or other table was deleted (must fail with the branch untouched, or be right); distinct_nontrivial = distinct (key position, column change, output path, branches, seed)",
		Assumptions: []string{"cells where the statement gives no rule accept any outcome (column removed by one branch and edited by another; row removed while others only changed columns)", "the interactive merge UI is not driven", "N <= 3 branches"},
		Gen: func(tier string, seed int64) []fw.Case {
			l := fw.NewCaseList("C05", tier, seed)
			rng := l.Rng()
			pkChoices := func(n int) [][]int {
				r := [][]int{{0}, {n - 1}, {n / 2}, nil}
				if n >= 3 {
					r = append(r, []int{0, 1}, []int{n - 1, 0}, []int{1, n - 1})
				}
				return r
			}
			// fixed witnesses of #5: key last, one-cell edits in two branches; keyless merge
			l.Add("fixed", c05Params{Rows: 5, NCols: 3, PK: []int{2}, Branches: 2, Ops: []string{"edit"}, Intensity: 2, Output: "rows"}, 71)
			l.Add("fixed", c05Params{Rows: 5, NCols: 3, PK: []int{2}, Branches: 2, Ops: []string{"edit"}, Intensity: 2, Output: "blocks"}, 72)
			l.Add("fixed", c05Params{Rows: 6, NCols: 2, PK: nil, Branches: 2, Ops: []string{"add", "remove"}, Intensity: 3, Output: "rows"}, 73)
			l.Add("fixed", c05Params{Rows: 6, NCols: 3, PK: []int{0}, Branches: 2, Ops: []string{"rename", "edit"}, Intensity: 3, Output: "rows"}, 74)
			n := l.N(200, 15000)
			for i := 0; i < n; i++ {
				p := c05Params{NCols: 2 + rng.Intn(4), Branches: 2 + rng.Intn(2)/1*rng.Intn(2), Intensity: 1 + rng.Intn(8)}
				switch rng.Intn(6) {
				case 0:
					p.Rows = 256 + rng.Intn(400)
				case 1:
					p.Rows = 1 + rng.Intn(3)
				default:
					p.Rows = 4 + rng.Intn(60)
				}
				pc := pkChoices(p.NCols)
				p.PK = pc[rng.Intn(len(pc))]
				switch rng.Intn(5) {
				case 0:
					p.Ops = []string{"edit", "add", "remove"}
				case 1:
					p.Ops = []string{"edit", "conflict", "samecell", "remove-vs-edit"}
				case 2:
					p.Ops = []string{"edit", "coladd", "colremove", "reorder", "shuffle-add"}
				case 3:
					p.Ops = []string{"edit", "rename", "add"}
				default:
					p.Ops = allOps
				}
				p.Output = []string{"rows", "blocks"}[rng.Intn(2)]
				p.Swap = rng.Intn(2) == 0
				switch rng.Intn(10) {
				case 0:
					p.Identity = "X-base"
				case 1:
					p.Identity = "X-X"
				}
				l.Add("tuple", p, 0)
			}
			for i := 0; i < l.N(30, 1000); i++ {
				p := c05Params{NCols: 2 + rng.Intn(3), Branches: 2, Intensity: 1 + rng.Intn(5), Rows: 3 + rng.Intn(40), Output: "cli"}
				pc := pkChoices(p.NCols)
				p.PK = pc[rng.Intn(len(pc))]
				if rng.Intn(3) == 0 {
					p.Ops = []string{"edit", "conflict", "remove-vs-edit"}
				} else {
					p.Ops = []string{"edit", "add", "remove", "coladd", "colremove", "reorder", "shuffle-add"}
				}
				if i%4 == 3 {
					p.PK = []int{0} // key position plays no part on this path
					// one commit is the ancestor of the other and fast-forward is disabled: a merge commit carrying X
					p.Identity, p.NoFF, p.Swap = "X-base", []string{"flag", "config"}[rng.Intn(2)], rng.Intn(2) == 0
					p.Ops = []string{"edit", "add", "remove", "coladd", "reorder"}
				}
				l.Add("cli", p, 0)
			}
			// fixed: three branches, the outer two in conflict over a cell the middle one does not touch
			for rep := 0; rep < l.N(6, 200); rep++ {
				l.Add("tuple", c05Params{NCols: 2 + rep%3, Branches: 3, Rows: 3 + rep*7%60, PK: []int{0}, Ops: []string{"edit", "add"}, Intensity: rep % 3, Forced: []forcedOp{{0, "conflict-outer"}}, Output: []string{"rows", "blocks"}[rep%2], Swap: rep%2 == 1}, 0)
			}
			// fixed: merge(base; X, base) = X for a keyless table to which X adds a column
			for rep := 0; rep < 6; rep++ {
				l.Add("tuple", c05Params{NCols: 2 + rep%3, Branches: 2, Rows: 3 + rep*40, Ops: []string{"add"}, Intensity: rep % 2, Forced: []forcedOp{{0, "coladd"}}, Identity: "X-base", Output: []string{"rows", "blocks"}[rep%2], Swap: rep%3 == 0}, 0)
			}
			// fixed through the CLI: one branch drops a column while the other adds one / reorders (no conflicts possible)
			for i, f := range [][]forcedOp{
				{{0, "colremove"}, {1, "coladd"}}, {{1, "colremove"}, {0, "coladd"}}, {{0, "reorder"}, {1, "colremove"}}, {{1, "reorder"}, {0, "colremove"}},
				{{0, "colremove"}, {1, "shuffle-add"}}, {{1, "colremove"}, {0, "shuffle-add"}}, {{0, "colremove"}, {1, "coladd"}, {1, "coladd"}}, {{1, "colremove"}, {0, "reorder"}, {0, "coladd"}},
			} {
				for rep := 0; rep < l.N(2, 40); rep++ {
					l.Add("cli", c05Params{NCols: 3 + (i+rep)%3, Branches: 2, Intensity: rep % 2, Rows: 4 + rep%30, Output: "cli", PK: []int{0}, Ops: []string{"edit", "add"}, Forced: f}, 0)
				}
			}
			// an object of the other branch's table is missing from the store: the merge fails, it does not commit a table with rows dropped
			for i := 0; i < l.N(20, 400); i++ {
				l.Add("cli", c05Params{NCols: 2 + i%3, Branches: 2, Intensity: 1 + i%3, Rows: []int{3 + i*11%50, 3 + i*11%50, 520 + i*7%200}[i%3], Output: "cli", PK: []int{0}, Ops: []string{"edit", "add", "remove"}, Damage: 1 + i%5}, 0)
			}
			// keyless tables, one branch with the columns in another order
			for i := 0; i < l.N(8, 160); i++ {
				l.Add([]string{"tuple", "cli"}[i%2], c05Params{NCols: 2 + i%3, Branches: 2, Intensity: 1 + i%2, Rows: 3 + i*7%40, Output: []string{"rows", "cli", "blocks", "cli"}[i%4], Ops: []string{"add"}, Forced: []forcedOp{{i / 2 % 2, "reorder"}}, Swap: i%3 == 0}, 0)
			}
			return l.Cases
		},
		Run: c05Run,
		Classify: func(c *fw.Case) string {
			var p c05Params
			c.P(&p)
			base, branches, _ := genMergeTuple(c.Rand(), &p)
			return c05Class(&p, base, branches)
		},
	})
}

func lastLines(s string, n int) string {
	ls := strings.Split(strings.TrimRight(s, "\n"), "\n")
	if len(ls) > n {
		ls = ls[len(ls)-n:]
	}
	return strings.Join(ls, " | ")
}
