package props

import (
	"fmt"
	"math/rand"
	"os"
	"path/filepath"
	"strings"
	"time"

	"github.com/wrgl/wrgl/pkg/objects"

	"verif/fw"
	"verif/gen"
	"verif/mon"
)

// tblSpec describes a generated table and one ingest configuration.
type tblSpec struct {
	Rows      int        `json:"rows"`
	NCols     int        `json:"ncols"`
	Style     int        `json:"style"`
	PK        []int      `json:"pk"`
	Unique    bool       `json:"unique"`
	Dup       float64    `json:"dup"`
	EmptyKey  bool       `json:"empty_key"`
	AllEmpty  bool       `json:"all_empty"`
	Big       []bigCell  `json:"big,omitempty"`
	DupAt     []int      `json:"dup_at,omitempty"` // after sorting-agnostic generation: copy key of row i-1 into row i at these sorted positions
	Fixed     *gen.Table `json:"fixed,omitempty"`
	TableSeed int64      `json:"table_seed"`
	CaseCols  bool       `json:"case_cols,omitempty"` // header names that differ only in letter case
}

type bigCell struct {
	Row int `json:"row"`
	Col int `json:"col"`
	Len int `json:"len"`
}

type ingCfg struct {
	Delim   string `json:"delim"`
	Chunks  string `json:"chunks"`
	Workers int    `json:"workers"`
	Store   string `json:"store"` // mem | badger
	Via     string `json:"via"`   // pkg | cli | cli-bf
	// SpillFault > 0 (pkg only): one spill file loses its last byte between the reading and the merging phase
	SpillFault int `json:"spill_fault,omitempty"`
}

// caseCols are distinct column names that are equal under case folding.
var caseCols = []string{"id", "ID", "Id", "iD", "idx", "IDX"}

func (s *tblSpec) build() *gen.Table {
	t := s.buildPlain()
	if s.CaseCols && len(t.Cols) <= len(caseCols) {
		t.Cols = append([]string(nil), caseCols[:len(t.Cols)]...)
	}
	return t
}

func (s *tblSpec) buildPlain() *gen.Table {
	if s.Fixed != nil {
		return s.Fixed.Clone()
	}
	rng := rand.New(rand.NewSource(s.TableSeed))
	t := gen.GenTable(rng, gen.Opts{Rows: s.Rows, NCols: s.NCols, Style: gen.CellStyle(s.Style), PK: s.PK, UniqueKey: s.Unique, DupRate: s.Dup, EmptyKey: s.EmptyKey, AllEmpty: s.AllEmpty})
	for _, b := range s.Big {
		if b.Row < len(t.Rows) && b.Col < len(t.Cols) {
			isKey := false
			for _, k := range s.PK {
				if k == b.Col {
					isKey = true
				}
			}
			// keep keys unique: a big key cell gets a distinct prefix
			prefix := ""
			if isKey || len(s.PK) == 0 {
				prefix = fmt.Sprintf("%d~", b.Row)
			}
			fill := "x"
			if rng.Intn(2) == 0 {
				fill = "\xc3\xa9" // 2-byte rune
			}
			cell := prefix + strings.Repeat(fill, b.Len)
			t.Rows[b.Row][b.Col] = cell[:b.Len]
		}
	}
	if len(s.DupAt) > 0 && len(t.Rows) > 1 {
		// place duplicate keys at exact sorted positions (block edges): sort a copy by key, then copy keys
		m := gen.Model(t.Rows, s.PK, len(t.Cols))
		pk := m.PK
		for _, pos := range s.DupAt {
			if pos <= 0 || pos >= len(m.Keys) {
				continue
			}
			// the row carrying sorted key #pos gets the key of sorted key #pos-1
			var src, dst []string
			for _, r := range t.Rows {
				match := func(key []string) bool {
					for i, c := range pk {
						if r[c] != key[i] {
							return false
						}
					}
					return true
				}
				if match(m.Keys[pos]) {
					dst = r
				}
				if match(m.Keys[pos-1]) {
					src = r
				}
			}
			if src != nil && dst != nil {
				for _, c := range pk {
					dst[c] = src[c]
				}
			}
		}
	}
	return t
}

func delimRune(d string) rune {
	if d == "" {
		return 0
	}
	return []rune(d)[0]
}

func maxCell(rows [][]string) int {
	m := 0
	for _, r := range rows {
		for _, c := range r {
			if len(c) > m {
				m = len(c)
			}
		}
	}
	return m
}

// ingestResult is what one ingest produced.
type ingestResult struct {
	Sum    []byte
	Err    error
	Panic  string
	DB     objects.Store
	Close  func()
	Export string // CLI: output of wrgl export
	// Faulted names the spill file that was damaged ("" = none, e.g. nothing was spilled)
	Faulted string
	// ConfiguredOtherKey: before the commit the branch's configuration named another key (CLI route)
	ConfiguredOtherKey bool
}

// runIngest ingests csvBytes under cfg, at package level or through the in-process CLI.
func runIngest(env *fw.Env, id string, csvBytes []byte, pkNames []string, cfg ingCfg, db objects.Store) (res ingestResult) {
	res.Close = func() {}
	_, rows, _ := gen.ParseCSV(csvBytes, delimRune(cfg.Delim))
	runSize := runSizeFor(cfg.Chunks, rows)
	if cfg.Chunks == "auto" {
		runSize = 0
	}
	if cfg.Via == "cli" || cfg.Via == "cli-bf" || cfg.Via == "cli-cfg" {
		root := filepath.Join(env.Dir, "repo-"+id)
		os.RemoveAll(root)
		wd, err := mon.NewRepo(root)
		if err != nil {
			res.Err = fmt.Errorf("harness: NewRepo: %v", err)
			return
		}
		res.Close = func() { os.RemoveAll(root) }
		fp := filepath.Join(root, "data.csv")
		args := []string{"commit", "main", fp, "msg", "--no-progress", "-n", fmt.Sprint(cfg.Workers)}
		if len(pkNames) > 0 {
			args = append(args, "-p", strings.Join(pkNames, ","))
		}
		if runSize > 0 {
			args = append(args, "--mem-limit", fmt.Sprint(runSize))
		}
		if cfg.Delim != "" {
			args = append(args, "--delimiter", cfg.Delim)
		}
		if cfg.Via == "cli-bf" {
			// the branch-file route: the file is registered with the branch, committed in an earlier state through
			// the cached two-argument form, then rewritten within the same second as the cache entry and committed
			// again the same way; the branch must hold the file's final rows
			cols, rows, _ := gen.ParseCSV(csvBytes, delimRune(cfg.Delim))
			v0 := gen.ToCSV(&gen.Table{Cols: cols}, delimRune(cfg.Delim))
			v1 := v0
			if len(rows) > 1 {
				v1 = gen.ToCSV(&gen.Table{Cols: cols, Rows: rows[:len(rows)-1]}, delimRune(cfg.Delim))
			}
			os.WriteFile(fp, v0, 0644)
			if out, err, pn := mon.Wrgl(wd, nil, append(args, "--set-file", "--set-primary-key")...); err != nil || pn != "" {
				res.Err, res.Panic = fmt.Errorf("first branch-file commit: %v %s", err, out), pn
				return
			}
			os.WriteFile(fp, v1, 0644)
			two := []string{"commit", "main", "second", "--no-progress", "-n", fmt.Sprint(cfg.Workers)}
			if out, err, pn := mon.Wrgl(wd, nil, two...); err != nil || pn != "" {
				res.Err, res.Panic = fmt.Errorf("second branch-file commit: %v %s", err, out), pn
				return
			}
			os.WriteFile(fp, csvBytes, 0644)
			if h, err := mon.OpenRepoHandle(wd); err == nil {
				if tmp, err := h.RS.Get("heads/main-tmp"); err == nil {
					if com, err := objects.GetCommit(h.DB, tmp); err == nil {
						mt := time.Unix(com.Time.Unix(), 900_000_000)
						os.Chtimes(fp, mt, mt)
					}
				}
				h.Close()
			}
			// the user looks at what would be committed first: `wrgl diff BRANCH --branch-file` goes through the same cache
			if id[len(id)-1]%2 == 0 {
				mon.Wrgl(wd, nil, "diff", "main", "--branch-file", "--no-gui")
				cwd, _ := os.Getwd()
				if ms, _ := filepath.Glob(filepath.Join(cwd, "DIFF_*.csv")); len(ms) > 0 {
					for _, m := range ms {
						os.Remove(m)
					}
				}
			}
			two[2] = "third"
			_, err, pn := mon.Wrgl(wd, nil, two...)
			res.Err, res.Panic = err, pn
			if err != nil || pn != "" {
				return
			}
		} else if cfg.Via == "cli-cfg" {
			// the very first commit of the branch comes from its configured file (no head, nothing cached)
			os.WriteFile(fp, csvBytes, 0644)
			steps := [][]string{{"config", "set", "branch.main.file", fp}}
			if len(pkNames) > 0 {
				steps = append(steps, []string{"config", "set", "branch.main.primaryKey", strings.Join(pkNames, ",")})
			}
			for _, st := range steps {
				if out, err, pn := mon.Wrgl(wd, nil, st...); err != nil || pn != "" {
					res.Err, res.Panic = fmt.Errorf("harness: %v: %v %s", st, err, out), pn
					return
				}
			}
			_, err, pn := mon.Wrgl(wd, nil, "commit", "main", "first commit from the configured file", "--no-progress", "-n", fmt.Sprint(cfg.Workers))
			res.Err, res.Panic = err, pn
			if err != nil || pn != "" {
				return
			}
		} else {
			os.WriteFile(fp, csvBytes, 0644)
			if id[len(id)-1]%2 == 1 {
				// state left by earlier commands: the branch has a configured key (another one than the one chosen now, or
				// one where none is chosen now). `wrgl commit BRANCH FILE MSG` takes its key from -p and from nothing else
				if cols, _, perr := gen.ParseCSV(csvBytes, delimRune(cfg.Delim)); perr == nil && len(cols) > 0 {
					other := cols[len(cols)-1]
					if len(pkNames) == 1 && pkNames[0] == other {
						other = cols[0]
					}
					if !strings.Contains(other, ",") {
						if out, err, pn := mon.Wrgl(wd, nil, "config", "set", "branch.main.primaryKey", other); err != nil || pn != "" {
							res.Err, res.Panic = fmt.Errorf("harness: config set branch.main.primaryKey: %v %s", err, out), pn
							return
						}
						res.ConfiguredOtherKey = true
					}
				}
			}
			_, err, pn := mon.Wrgl(wd, nil, args...)
			res.Err, res.Panic = err, pn
			if err != nil || pn != "" {
				return
			}
		}
		out, err, pn := mon.Wrgl(wd, nil, "export", "main")
		if err != nil || pn != "" {
			res.Err, res.Panic = fmt.Errorf("export: %v", err), pn
			return
		}
		res.Export = out
		rd, err := mon.OpenRepo(wd)
		if err != nil {
			res.Err = err
			return
		}
		odb, err := rd.OpenObjectsStore()
		if err != nil {
			res.Err = err
			return
		}
		rs := rd.OpenRefStore()
		head, err := rs.Get("heads/main")
		if err != nil {
			res.Err = fmt.Errorf("no heads/main after commit: %v", err)
			odb.Close()
			rd.Close()
			return
		}
		com, err := objects.GetCommit(odb, head)
		if err != nil {
			res.Err = fmt.Errorf("head commit unreadable: %v", err)
			odb.Close()
			rd.Close()
			return
		}
		res.Sum = com.Table
		res.DB = odb
		res.Close = func() { odb.Close(); rd.Close(); os.RemoveAll(root) }
		return
	}
	if db == nil {
		if cfg.Store == "badger" {
			dir := filepath.Join(env.Dir, "badger-"+id)
			os.RemoveAll(dir)
			os.MkdirAll(dir, 0755)
			bdb, err := mon.OpenBadger(dir)
			if err != nil {
				res.Err = fmt.Errorf("harness: badger: %v", err)
				return
			}
			db = bdb
			res.Close = func() { bdb.Close(); os.RemoveAll(dir) }
		} else {
			db = mon.NewMemStore()
		}
	}
	res.DB = db
	res.Sum, res.Err, res.Panic = mon.Ingest(db, csvBytes, mon.IngestCfg{PK: pkNames, Delim: delimRune(cfg.Delim), RunSize: runSize, Workers: cfg.Workers, SpillFault: cfg.SpillFault, Faulted: &res.Faulted})
	return
}

func pkClass(pk []int) string {
	switch {
	case len(pk) == 0:
		return "nokey"
	case len(pk) == 1 && pk[0] == 0:
		return "key-first"
	case len(pk) == 1:
		return "key-not-first"
	default:
		return "composite"
	}
}

func sizeClass(n int) string {
	switch {
	case n == 0:
		return "empty"
	case n <= 255:
		return "1block"
	default:
		return "multiblock"
	}
}

func cfgString(c ingCfg) string {
	return fmt.Sprintf("%s/w%d/%s/%s/d%q", c.Chunks, c.Workers, c.Store, c.Via, c.Delim)
}

// genTblSpecs returns the seeded table specs shared by C01/C02/C03.
func randTblSpec(rng *rand.Rand, unique bool) tblSpec {
	s := randTblSpecPlain(rng, unique)
	s.CaseCols = rng.Intn(6) == 0
	return s
}

func randTblSpecPlain(rng *rand.Rand, unique bool) tblSpec {
	s := tblSpec{NCols: 1 + rng.Intn(6), TableSeed: rng.Int63(), Unique: unique}
	switch rng.Intn(12) {
	case 0:
		s.Rows = rng.Intn(3)
	case 1:
		s.Rows = []int{254, 255, 256, 509, 510, 511, 765}[rng.Intn(7)]
	case 2:
		s.Rows = 255*3 + []int{0, 1, 254}[rng.Intn(3)]
	case 3:
		s.Rows = 800 + rng.Intn(1200)
	default:
		s.Rows = 1 + rng.Intn(120)
	}
	switch rng.Intn(4) {
	case 0:
		s.Style = int(gen.CellTiny)
	case 1:
		s.Style = int(gen.CellSimple)
	default:
		s.Style = int(gen.CellHostile)
	}
	s.PK = gen.PKChoice(rng, s.NCols)
	if !unique {
		s.Dup = []float64{0, 0.1, 0.5}[rng.Intn(3)]
	}
	s.EmptyKey = rng.Intn(3) == 0
	s.AllEmpty = rng.Intn(5) == 0
	if !unique && s.Rows > 256 && rng.Intn(2) == 0 {
		s.DupAt = []int{[]int{254, 255, 256}[rng.Intn(3)]}
		if s.Rows > 511 {
			s.DupAt = append(s.DupAt, []int{509, 510, 511}[rng.Intn(3)])
		}
	}
	return s
}

var workerChoices = []int{1, 2, 3, 4, 8, 16} // 2 and 3 sit on the inserter's "minus two, at least one" clamp
var chunkChoices = []string{"none", "one", "two", "five", "every", "auto"}
var delimChoices = []string{"", "", "|", ";", "\t", "\u00a6"} // the last one is two bytes long in UTF-8

func randIngCfg(rng *rand.Rand, rows int) ingCfg {
	c := ingCfg{Workers: workerChoices[rng.Intn(len(workerChoices))], Chunks: chunkChoices[rng.Intn(len(chunkChoices))], Delim: delimChoices[rng.Intn(len(delimChoices))], Store: "mem", Via: "pkg"}
	if rows > 600 && c.Chunks == "every" {
		c.Chunks = "five"
	}
	return c
}
