package props

import (
	"bytes"
	"encoding/json"
	"fmt"
	"io"
	"math/rand"
	"net/http"
	"net/http/httptest"
	"os"
	"path/filepath"
	"sort"
	"strings"
	"sync"

	"github.com/go-logr/logr"
	apiclient "github.com/wrgl/wrgl/pkg/api/client"
	"github.com/wrgl/wrgl/pkg/ref"

	"verif/fw"
	"verif/mon"
	"verif/refserver"
)

// C17, replies of a remote: "a truncated, bit-flipped or adversarial reply from a remote cannot take down or exhaust the
// client". A valid exchange between wrgl's client and the reference server is recorded reply by reply; then the exchange
// is replayed by a script server with exactly one reply replaced by a mutant (structural mutations of the JSON answers,
// truncations and bit flips of any answer, answers under the wrong content type); what follows the script is answered
// with 400 (a 5xx answer makes `wrgl push` retry with exponential back-off for minutes, which is its design). The client is wrgl's UploadPackSession / Client.GetRefs at package level and the real `wrgl fetch` /
// `wrgl push` in-process. It must return (value or error) without a panic, must not go on asking once the script is
// over, and must leave a repository in which every stored commit has its parents and every present table is sound.

type scriptReply struct {
	Status  int
	CT      string
	Body    []byte
	Cookies []string
	Path    string
}

type scriptServer struct {
	mu       sync.Mutex
	inner    http.Handler // record mode: the reference server
	record   bool
	script   []scriptReply
	requests int
	srv      *httptest.Server
}

func newScriptServer(inner http.Handler) *scriptServer {
	s := &scriptServer{inner: inner, record: true}
	s.srv = httptest.NewServer(http.HandlerFunc(s.serve))
	return s
}

func (s *scriptServer) serve(w http.ResponseWriter, r *http.Request) {
	s.mu.Lock()
	defer s.mu.Unlock()
	io.Copy(io.Discard, r.Body)
	if s.record {
		panic("record mode is served by serveRecord")
	}
	i := s.requests
	s.requests++
	if i >= len(s.script) {
		http.Error(w, "script over", 400) // not 5xx: `wrgl push` retries those with exponential back-off, by design
		return
	}
	rep := s.script[i]
	for _, c := range rep.Cookies {
		w.Header().Add("Set-Cookie", c)
	}
	if rep.CT != "" {
		w.Header().Set("Content-Type", rep.CT)
	}
	w.WriteHeader(rep.Status)
	w.Write(rep.Body)
}

// recordingHandler passes requests to the reference server and keeps its answers.
func (s *scriptServer) recordingHandler() http.Handler {
	return http.HandlerFunc(func(w http.ResponseWriter, r *http.Request) {
		rec := httptest.NewRecorder()
		s.inner.ServeHTTP(rec, r)
		s.mu.Lock()
		s.script = append(s.script, scriptReply{Status: rec.Code, CT: rec.Header().Get("Content-Type"), Body: append([]byte(nil), rec.Body.Bytes()...), Cookies: rec.Header().Values("Set-Cookie"), Path: r.URL.Path})
		s.mu.Unlock()
		for k, v := range rec.Header() {
			w.Header()[k] = v
		}
		w.WriteHeader(rec.Code)
		w.Write(rec.Body.Bytes())
	})
}

// jsonMutants lists structural mutants of a JSON document: every leaf and every container replaced by values of
// other shapes, every key removed, every array given a null element.
func jsonMutants(doc []byte) [][]byte {
	var root interface{}
	if json.Unmarshal(doc, &root) != nil {
		return nil
	}
	var out [][]byte
	emit := func() {
		b, _ := json.Marshal(root)
		out = append(out, b)
	}
	hex32 := strings.Repeat("ab", 16)
	leafSubs := []interface{}{nil, 1, 1.5, true, "", "z", hex32[:31], hex32[:30], hex32 + "a", hex32 + "ab", hex32 + hex32, strings.Repeat("g", 32), []interface{}{}, []interface{}{nil}, map[string]interface{}{}, map[string]interface{}{"x": nil}}
	var walk func(get func() interface{}, set func(interface{}))
	walk = func(get func() interface{}, set func(interface{})) {
		orig := get()
		for _, sub := range leafSubs {
			set(sub)
			emit()
		}
		set(orig)
		switch v := orig.(type) {
		case map[string]interface{}:
			keys := make([]string, 0, len(v))
			for k := range v {
				keys = append(keys, k)
			}
			sort.Strings(keys)
			for _, k := range keys {
				k := k
				val := v[k]
				delete(v, k)
				emit()
				v[k] = val
				walk(func() interface{} { return v[k] }, func(x interface{}) { v[k] = x })
			}
		case []interface{}:
			if len(v) > 0 {
				set(append(append([]interface{}{}, v...), nil))
				emit()
				set(append([]interface{}{nil}, v...))
				emit()
				set(orig)
			}
			n := len(v)
			if n > 3 {
				n = 3 // the first elements stand for the rest
			}
			for i := 0; i < n; i++ {
				i := i
				walk(func() interface{} { return v[i] }, func(x interface{}) { v[i] = x })
			}
		}
	}
	walk(func() interface{} { return root }, func(x interface{}) { root = x })
	for _, raw := range []string{``, ` `, `{`, `{}`, `[]`, `null`, `""`, `0`, `{"acks":[null]}`, `{"tableHaves":[null]}`, `{"tableACKs":[null]}`, `{"refs":{"heads/main":null}}`, `{"updates":{"heads/main":null}}`, `{"updates":null}`, `{"refs":null}`, `{"acks":["` + hex32 + `",null]}`} {
		out = append(out, []byte(raw))
	}
	return out
}

type replyMutant struct {
	at    int
	rep   scriptReply
	label string
}

// replyMutants enumerates the mutants of a recorded script for one family, thinned to the budget with a stride.
func replyMutants(script []scriptReply, fam string, rng *rand.Rand, budget int) []replyMutant {
	var all []replyMutant
	for j, r := range script {
		isJSON := strings.HasPrefix(r.CT, "application/json")
		switch fam {
		case "json":
			if !isJSON {
				continue
			}
			for k, b := range jsonMutants(r.Body) {
				m := r
				m.Body = b
				all = append(all, replyMutant{j, m, fmt.Sprintf("reply %d (%s) json mutant %d: %s", j, r.Path, k, tailStr(string(b), 120))})
			}
		case "bytes":
			for cut := 0; cut < len(r.Body); cut++ {
				m := r
				m.Body = r.Body[:cut]
				all = append(all, replyMutant{j, m, fmt.Sprintf("reply %d (%s, %s) cut at %d of %d", j, r.Path, r.CT, cut, len(r.Body))})
			}
			for k := 0; k < 200 && len(r.Body) > 0; k++ {
				m := r
				m.Body = append([]byte(nil), r.Body...)
				bit := rng.Intn(len(m.Body) * 8)
				m.Body[bit/8] ^= 1 << uint(bit%8)
				all = append(all, replyMutant{j, m, fmt.Sprintf("reply %d (%s, %s) bit %d flipped", j, r.Path, r.CT, bit)})
			}
		case "ctype":
			for _, ct := range []string{"application/json", "application/x-wrgl-packfile", "text/plain", ""} {
				if ct == r.CT {
					continue
				}
				m := r
				m.CT = ct
				all = append(all, replyMutant{j, m, fmt.Sprintf("reply %d (%s) sent as %q instead of %q", j, r.Path, ct, r.CT)})
				m.Body = nil
				all = append(all, replyMutant{j, m, fmt.Sprintf("reply %d (%s) empty, sent as %q", j, r.Path, ct)})
			}
			for _, st := range []int{204, 301, 400, 401, 403, 404} {
				m := r
				m.Status = st
				all = append(all, replyMutant{j, m, fmt.Sprintf("reply %d (%s) with status %d", j, r.Path, st)})
			}
			// the answer of another request of the same exchange in this one's place
			for k, other := range script {
				if k != j {
					m := other
					m.Cookies = r.Cookies
					all = append(all, replyMutant{j, m, fmt.Sprintf("reply %d (%s) replaced by reply %d (%s, %s)", j, r.Path, k, other.Path, other.CT)})
				}
			}
		}
	}
	if len(all) <= budget || budget <= 0 {
		return all
	}
	stride := float64(len(all)) / float64(budget)
	var out []replyMutant
	for k := 0; k < budget; k++ {
		out = append(out, all[int(float64(k)*stride)])
	}
	return out
}

func copyTree(src, dst string) error {
	return filepath.Walk(src, func(p string, info os.FileInfo, err error) error {
		if err != nil {
			return err
		}
		rel, _ := filepath.Rel(src, p)
		t := filepath.Join(dst, rel)
		if info.IsDir() {
			return os.MkdirAll(t, 0o755)
		}
		b, err := os.ReadFile(p)
		if err != nil {
			return err
		}
		return os.WriteFile(t, b, info.Mode())
	})
}

func chainShape(n int) [][]int {
	sh := [][]int{{}}
	for i := 1; i < n; i++ {
		sh = append(sh, []int{i - 1})
	}
	return sh
}

func c17Reply(c *fw.Case, env *fw.Env, o *fw.Obs, p *c17Params) *fw.Obs {
	rng := c.Rand()
	all := mon.NewMemStore()
	n := 5
	h, err := buildHistory(all, rng, histOpts{BaseRows: []int{6, 300}[p.Corpus%2], Parents: chainShape(n)})
	if err != nil {
		o.Status = "inconclusive"
		o.Note = err.Error()
		return o
	}
	ahead, behind := n-1, 1
	inconclusive := func(f string, a ...interface{}) *fw.Obs {
		o.Status = "inconclusive"
		o.Note = fmt.Sprintf(f, a...)
		return o
	}
	remoteDB := mon.NewMemStore()
	remoteRS, rsdb, err := mon.NewMemRefStore()
	if err != nil {
		return inconclusive("%v", err)
	}
	defer rsdb.Close()
	push := p.Entry == "reply-cli-push"
	remoteAt, localAt := ahead, behind
	if push {
		remoteAt, localAt = behind, ahead
	}
	h.copyCommitClosure(all, remoteDB, remoteAt)
	ref.SaveRef(remoteRS, "heads/main", h.sums[remoteAt], "setup", "s@x", "setup", "remote", nil)
	remoteSnap := remoteDB.Snapshot()
	core := refserver.NewCore(remoteDB, remoteRS, []uint64{1024, 0}[p.Corpus/2%2])
	ss := newScriptServer(core.Handler())
	defer ss.srv.Close()
	rec := httptest.NewServer(ss.recordingHandler())
	// the recording listener and the replaying listener differ in their address only; the client is pointed at one, then
	// at the other
	defer rec.Close()
	ss.record = false

	cli := strings.HasPrefix(p.Entry, "reply-cli-")
	var tmpl string
	var localSnap map[string][]byte
	localRS, lrsdb, err := mon.NewMemRefStore()
	if err != nil {
		return inconclusive("%v", err)
	}
	defer lrsdb.Close()
	var cliArgs []string
	if cli {
		root := filepath.Join(env.Dir, "reply-"+c.ID)
		os.RemoveAll(root)
		defer os.RemoveAll(root)
		wd, err := mon.NewRepo(filepath.Join(root, "tmpl"))
		if err != nil {
			return inconclusive("%v", err)
		}
		tmpl = filepath.Dir(wd)
		lh, err := mon.OpenRepoHandle(wd)
		if err != nil {
			return inconclusive("%v", err)
		}
		h.copyCommitClosure(all, lh.DB, localAt)
		ref.SaveRef(lh.RS, "heads/main", h.sums[localAt], "setup", "s@x", "setup", "local", nil)
		if !push {
			ref.SaveRef(lh.RS, "remotes/origin/main", h.sums[localAt], "setup", "s@x", "setup", "local", nil)
		}
		lh.Close()
		if _, err, pn := mon.Wrgl(wd, nil, "remote", "add", "origin", rec.URL); err != nil || pn != "" {
			return inconclusive("remote add: %v %s", err, pn)
		}
		if push {
			cliArgs = []string{"push", "origin", "refs/heads/main:refs/heads/main", "--no-progress"}
		} else {
			cliArgs = []string{"fetch", "origin", "refs/heads/main:refs/remotes/origin/main", "--no-progress"}
		}
	} else {
		ldb := mon.NewMemStore()
		h.copyCommitClosure(all, ldb, localAt)
		localSnap = ldb.Snapshot()
		ref.SaveRef(localRS, "remotes/origin/main", h.sums[localAt], "setup", "s@x", "setup", "local", nil)
	}

	// one run of the client against base URL; returns what it did
	run := func(url string, label string) (errOut error, pn string, issues []mon.Issue) {
		if cli {
			runDir := filepath.Join(filepath.Dir(tmpl), "run")
			os.RemoveAll(runDir)
			if err := copyTree(tmpl, runDir); err != nil {
				return err, "", nil
			}
			wd := filepath.Join(runDir, ".wrgl")
			if url != rec.URL {
				if _, err, pn := mon.Wrgl(wd, nil, "config", "set", "remote.origin.url", url); err != nil || pn != "" {
					return fmt.Errorf("config set: %v %s", err, pn), "", nil
				}
			}
			_, errOut, pn = mon.Wrgl(wd, nil, cliArgs...)
			if pn == "" {
				if lh, err := mon.OpenRepoHandle(wd); err == nil {
					_, issues = mon.CheckRepo(lh.DB, lh.RS, true)
					lh.Close()
				} else {
					issues = []mon.Issue{{Clause: "repository-does-not-open", Detail: err.Error()}}
				}
			}
			return
		}
		ldb := mon.FromSnapshot(localSnap)
		client, err := apiclient.NewClient(url, logr.Discard())
		if err != nil {
			return err, "", nil
		}
		pn = fw.Catch(func() {
			if p.Entry == "reply-refs" {
				_, errOut = client.GetRefs(nil, []string{"txs/"})
				return
			}
			m, err := client.GetRefs(nil, []string{"txs/"})
			if err != nil {
				errOut = err
				return
			}
			var adv [][]byte
			for _, v := range m {
				adv = append(adv, v)
			}
			ses, err := apiclient.NewUploadPackSession(ldb, localRS, client, adv, apiclient.WithUploadPackHavesPerRoundTrip(1))
			if err != nil {
				errOut = err
				return
			}
			_, errOut = ses.Start()
		})
		if pn == "" {
			emptyRS, edb, err := mon.NewMemRefStore()
			if err == nil {
				_, issues = mon.CheckRepo(ldb, emptyRS, false)
				edb.Close()
			}
		}
		return
	}

	// the valid exchange, recorded
	if err, pn, issues := run(rec.URL, "valid"); err != nil || pn != "" || len(issues) > 0 {
		return inconclusive("the unmutated exchange failed: %v %s %v", err, firstLines(pn, 6), issues)
	}
	script := append([]scriptReply(nil), ss.script...)
	if len(script) < 2 && p.Entry != "reply-refs" {
		return inconclusive("recorded only %d replies", len(script))
	}
	o.Ev("recorded_replies", int64(len(script)))
	muts := replyMutants(script, p.Mut, rng, p.Budget)
	for _, m := range muts {
		sc := append([]scriptReply(nil), script...)
		sc[m.at] = m.rep
		ss.mu.Lock()
		ss.script, ss.requests = sc, 0
		ss.mu.Unlock()
		if push {
			// nothing the mutants of earlier runs made the remote store matters: the script server never touches it
			_ = remoteSnap
		}
		err, pn, issues := run(ss.srv.URL, m.label)
		o.Ev("oracle_evaluations", 1)
		o.Ev("inputs_reply_"+p.Mut, 1)
		if err != nil {
			o.Ev("rejected_with_error", 1)
		} else {
			o.Ev("accepted", 1)
		}
		if pn != "" {
			o.Violate("panic/"+p.Entry+"/"+fw.PanicSite(pn), "%s: %s", m.label, firstLines(pn, 14))
			if len(o.Viols) >= 4 {
				break
			}
			continue
		}
		ss.mu.Lock()
		reqs := ss.requests
		ss.mu.Unlock()
		if reqs > len(sc)+4 {
			o.Violate("requests-out-of-proportion/"+p.Entry, "%s: the client made %d requests although everything after the %d scripted replies is answered with 400", m.label, reqs, len(sc))
			break
		}
		if len(issues) > 0 {
			o.Violate("left-referenced/"+issues[0].Clause+"/"+p.Entry, "%s: afterwards %s", m.label, issues[0].Detail)
			if len(o.Viols) >= 4 {
				break
			}
		}
	}
	o.Key("%s/%s/%d", p.Entry, p.Mut, p.Corpus)
	o.Sample = map[string]interface{}{"entry": p.Entry, "mutation": p.Mut, "recorded_replies": len(script), "mutants": len(muts), "rejected": o.Events["rejected_with_error"], "accepted": o.Events["accepted"]}
	return o
}

var _ = bytes.Equal
