package props

import (
	"database/sql"
	"errors"
	"fmt"
	"io"
	"os"
	"path/filepath"
	"sync"
	"time"

	"github.com/anishathalye/porcupine"
	"github.com/wrgl/wrgl/pkg/ref"
	refsql "github.com/wrgl/wrgl/pkg/ref/sql"

	"verif/fw"
	"verif/mon"
)

// Concurrent extension of C15: several clients with separate database handles on one
// SQLite file; the recorded history must be linearizable against a register per name.

type c15ConcParams struct {
	Clients int  `json:"clients"`
	Ops     int  `json:"ops"`
	Names   int  `json:"names"`
	Chain   bool `json:"chain"` // only logged sets and gets: the reflog chain is checked as well
}

type regIn struct {
	Name string
	Op   string // set | setlog | get | delete
	Val  string
}
type regOut struct {
	Val string
	OK  bool // operation returned without error
}

var c15RegModel = (&porcupine.NondeterministicModel{
	Partition: func(history []porcupine.Operation) [][]porcupine.Operation {
		m := map[string][]porcupine.Operation{}
		var order []string
		for _, op := range history {
			k := op.Input.(regIn).Name
			if _, ok := m[k]; !ok {
				order = append(order, k)
			}
			m[k] = append(m[k], op)
		}
		var out [][]porcupine.Operation
		for _, k := range order {
			out = append(out, m[k])
		}
		return out
	},
	Init: func() []interface{} { return []interface{}{""} },
	Step: func(state, input, output interface{}) []interface{} {
		st := state.(string)
		in := input.(regIn)
		out := output.(regOut)
		switch in.Op {
		case "get":
			if !out.OK {
				return []interface{}{st} // a failed read tells nothing
			}
			if out.Val == st {
				return []interface{}{st}
			}
			return nil
		case "delete":
			if out.OK {
				return []interface{}{""}
			}
			return []interface{}{st, ""} // effect unknown
		default:
			if out.OK {
				return []interface{}{in.Val}
			}
			return []interface{}{st, in.Val}
		}
	},
	Equal: func(a, b interface{}) bool { return a.(string) == b.(string) },
	DescribeOperation: func(input, output interface{}) string {
		in := input.(regIn)
		out := output.(regOut)
		return fmt.Sprintf("%s(%s,%x)->(%x,%v)", in.Op, in.Name, in.Val, out.Val, out.OK)
	},
}).ToModel()

func c15ConcRun(c *fw.Case, env *fw.Env) *fw.Obs {
	o := fw.NewObs(c)
	var p c15ConcParams
	c.P(&p)
	path := filepath.Join(env.Dir, "conc-"+c.ID+".db")
	os.Remove(path)
	defer func() {
		os.Remove(path)
		os.Remove(path + "-journal")
	}()
	_, db0, err := mon.NewFileRefStore(path, true)
	if err != nil {
		o.Status = "inconclusive"
		o.Note = err.Error()
		return o
	}
	db0.Close()
	names := []string{"heads/main", "heads/ma_n", "remotes/a_b/x"}[:p.Names]
	start := time.Now()
	var mu sync.Mutex
	var history []porcupine.Operation
	var wg sync.WaitGroup
	type logged struct{ name, val string }
	var okLogged []logged
	for cl := 0; cl < p.Clients; cl++ {
		wg.Add(1)
		go func(cl int) {
			defer wg.Done()
			db, err := sql.Open("sqlite3", path)
			if err != nil {
				return
			}
			defer db.Close()
			s := refsql.NewStore(db)
			rng := fw.SubRand(c.Seed, int64(cl))
			for i := 0; i < p.Ops; i++ {
				in := regIn{Name: names[rng.Intn(len(names))]}
				v := make([]byte, 16)
				v[0], v[1], v[2] = byte(cl+1), byte(i>>8), byte(i)
				x := rng.Intn(10)
				switch {
				case x < 4:
					in.Op = "get"
				case x < 7 || p.Chain:
					in.Op, in.Val = "setlog", string(v)
				case x < 9:
					in.Op, in.Val = "set", string(v)
				default:
					in.Op = "delete"
				}
				call := time.Since(start).Nanoseconds()
				var out regOut
				switch in.Op {
				case "get":
					b, err := s.Get(in.Name)
					if err == nil {
						out = regOut{Val: string(b), OK: true}
					} else if errors.Is(err, ref.ErrKeyNotFound) {
						// the SQL store folds driver errors into "not found": only trust it when the db was reachable
						out = regOut{Val: "", OK: true}
					}
				case "set":
					out.OK = s.Set(in.Name, v) == nil
				case "setlog":
					out.OK = s.SetWithLog(in.Name, v, &ref.Reflog{NewOID: v, AuthorName: fmt.Sprintf("c%d", cl), Action: "commit", Message: fmt.Sprint(i), Time: time.Unix(1600000000+int64(i), 0)}) == nil
				case "delete":
					out.OK = s.Delete(in.Name) == nil
				}
				ret := time.Since(start).Nanoseconds()
				if !out.OK && in.Op != "get" {
					ret = 1 << 60 // may take effect at any later point: keep it open until the end
				}
				mu.Lock()
				history = append(history, porcupine.Operation{ClientId: cl, Input: in, Call: call, Output: out, Return: ret})
				if out.OK && in.Op == "setlog" {
					okLogged = append(okLogged, logged{in.Name, in.Val})
				}
				mu.Unlock()
			}
		}(cl)
	}
	wg.Wait()
	failed := 0
	for _, h := range history {
		if !h.Output.(regOut).OK {
			failed++
		}
	}
	o.Ev("concurrent_ops", int64(len(history)))
	o.Ev("concurrent_ops_failed_busy", int64(failed))
	// A Get that hit a busy database is reported by the store as "not found": such a read cannot be told
	// from a true miss, so reads of "" are only used when no write was in flight or failed... they are
	// modelled as possibly-failed reads instead (OK=false) to stay sound.
	for i := range history {
		in := history[i].Input.(regIn)
		out := history[i].Output.(regOut)
		if in.Op == "get" && out.Val == "" {
			history[i].Output = regOut{OK: false}
		}
	}
	// Pruning that keeps the verdict exact for a register with unique written values: an operation with unknown
	// effect may always be linearized as "no effect", so a failed set whose value no successful read ever returned,
	// and every failed delete or read, can be left out (leaving them in can only add constraints that the
	// no-effect choice removes again). Failed sets whose value WAS read stay in, open until the end.
	observed := map[string]bool{}
	for _, h := range history {
		if in := h.Input.(regIn); in.Op == "get" {
			if out := h.Output.(regOut); out.OK {
				observed[in.Name+"\x00"+out.Val] = true
			}
		}
	}
	pruned := history[:0:0]
	for _, h := range history {
		in, out := h.Input.(regIn), h.Output.(regOut)
		if !out.OK {
			if in.Op == "get" || in.Op == "delete" {
				continue
			}
			if !observed[in.Name+"\x00"+in.Val] {
				continue
			}
		}
		pruned = append(pruned, h)
	}
	o.Ev("concurrent_ops_checked", int64(len(pruned)))
	history = pruned
	res, _ := porcupine.CheckOperationsVerbose(c15RegModel, history, 120*time.Second)
	o.Ev("oracle_evaluations", 1)
	switch res {
	case porcupine.Illegal:
		o.Violate("not-linearizable/sql-file-concurrent", "history of %d operations by %d clients on %d names is not linearizable against a register per name", len(history), p.Clients, p.Names)
	case porcupine.Unknown:
		o.Status = "inconclusive"
		o.Note = "linearizability checker timed out"
	}
	// offline reflog chain check
	_, db, err := mon.NewFileRefStore(path, false)
	if err == nil {
		defer db.Close()
		s := refsql.NewStore(db)
		for _, n := range names {
			lr, err := s.LogReader(n)
			if err != nil {
				continue
			}
			var entries []*ref.Reflog
			for {
				rl, err := lr.Read()
				if err != nil {
					if !errors.Is(err, io.EOF) {
						o.Violate("log-read-error/sql-file-concurrent", "%v", err)
					}
					break
				}
				entries = append(entries, rl)
			}
			o.Ev("log_entries_checked", int64(len(entries)))
			final, _ := s.Get(n)
			if p.Chain && len(entries) > 0 {
				if string(entries[0].NewOID) != string(final) {
					o.Violate("log-chain/last-new-is-not-final-value/sql-file-concurrent", "%s: newest log entry sets %x but the ref holds %x", n, entries[0].NewOID, final)
				}
				for i := 0; i+1 < len(entries); i++ {
					if string(entries[i].OldOID) != string(entries[i+1].NewOID) {
						o.Violate("log-chain/old-is-not-previous-new/sql-file-concurrent", "%s: entry %d (newest first) has old %x, the entry before it set %x", n, i, entries[i].OldOID, entries[i+1].NewOID)
						break
					}
				}
				if entries[len(entries)-1].OldOID != nil {
					o.Violate("log-chain/first-old-not-nil/sql-file-concurrent", "%s: oldest entry has old value %x on a fresh name", n, entries[len(entries)-1].OldOID)
				}
				// every acknowledged logged set appears exactly once
				cnt := map[string]int{}
				for _, e := range entries {
					cnt[string(e.NewOID)]++
				}
				for _, l := range okLogged {
					if l.name == n && cnt[l.val] != 1 {
						o.Violate("log-chain/acknowledged-set-not-logged-once/sql-file-concurrent", "%s: acknowledged SetWithLog of %x appears %d times in the log", n, l.val, cnt[l.val])
						break
					}
				}
			}
		}
	}
	o.Key("conc/c%d/o%d/n%d/%v/%d", p.Clients, p.Ops, p.Names, p.Chain, c.Seed%100000)
	o.Sample = map[string]interface{}{"mode": "concurrent", "clients": p.Clients, "ops": len(history), "failed_busy": failed, "names": p.Names, "chain": p.Chain, "result": string(res)}
	return o
}
