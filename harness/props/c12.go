package props

import (
	"bytes"
	"fmt"
	"math/rand"
	"os"
	"path/filepath"
	"strings"
	"time"

	"github.com/google/uuid"
	"github.com/wrgl/wrgl/pkg/objects"
	"github.com/wrgl/wrgl/pkg/prune"
	"github.com/wrgl/wrgl/pkg/ref"

	"verif/fw"
	"verif/mon"
)

// C12 — pruning removes only unreachable objects and leaves every ref fully usable.

type c12Params struct {
	N           int    `json:"n"`
	BaseRows    int    `json:"base_rows"`
	Refs        int    `json:"refs"`
	Shallow     int    `json:"shallow"`
	Via         string `json:"via"` // pkg | cli | cli-gc
	OrphanTable bool   `json:"orphan_table"`
	ExpiredTx   bool   `json:"expired_tx,omitempty"` // a second, long-expired transaction holds every third ref
	ShortTTL    bool   `json:"short_ttl,omitempty"`  // gc: transactionTTL is configured to two hours (the open transaction is seconds old)
}

func c12RefName(rng *rand.Rand, j int, txid string) string {
	switch rng.Intn(5) {
	case 0:
		return fmt.Sprintf("tags/v%d", j)
	case 1:
		return fmt.Sprintf("remotes/origin/b%d", j)
	case 2:
		return fmt.Sprintf("txs/%s/b%d", txid, j)
	default:
		return fmt.Sprintf("heads/b%d", j)
	}
}

func c12Run(c *fw.Case, env *fw.Env) *fw.Obs {
	o := fw.NewObs(c)
	var p c12Params
	c.P(&p)
	rng := c.Rand()
	var db objects.Store
	var rs ref.Store
	closeAll := func() {}
	var wrglDir string
	if p.Via == "pkg" {
		db = mon.NewMemStore()
		s, sdb, err := mon.NewMemRefStore()
		if err != nil {
			o.Status = "inconclusive"
			o.Note = err.Error()
			return o
		}
		rs = s
		closeAll = func() { sdb.Close() }
	} else {
		root := filepath.Join(env.Dir, "repo-"+c.ID)
		os.RemoveAll(root)
		defer os.RemoveAll(root)
		wd, err := mon.NewRepo(root)
		if err != nil {
			o.Status = "inconclusive"
			o.Note = err.Error()
			return o
		}
		wrglDir = wd
	}
	open := func() bool {
		if p.Via == "pkg" {
			return true
		}
		rd, err := mon.OpenRepo(wrglDir)
		if err != nil {
			o.Status = "inconclusive"
			o.Note = err.Error()
			return false
		}
		odb, err := rd.OpenObjectsStore()
		if err != nil {
			rd.Close()
			o.Status = "inconclusive"
			o.Note = err.Error()
			return false
		}
		db, rs = odb, rd.OpenRefStore()
		closeAll = func() { odb.Close(); rd.Close() }
		return true
	}
	if !open() {
		return o
	}
	h, err := buildHistory(db, rng, histOpts{N: p.N, BaseRows: p.BaseRows, Roots: 2, Rekey: true})
	if err != nil {
		closeAll()
		o.Status = "inconclusive"
		o.Note = err.Error()
		return o
	}
	// refs of every kind onto a random subset of commits (the rest is "deleted refs")
	refKinds := map[string]bool{}
	R := map[int]bool{}
	// transaction refs belong to a transaction that is open (started now, nowhere near any expiry)
	txid := uuid.MustParse("a1dbfcc4-f6da-454c-a783-f1b70d347baf").String()
	if id, err := rs.NewTransaction(nil); err == nil && id != nil {
		txid = id.String()
	}
	// and (gc cases) a second transaction that was opened 45 days ago and never committed: gc discards it, so after gc its
	// refs are gone and what only they reached is garbage; plain prune does not touch transactions, so there its refs count
	expired := ""
	if p.ExpiredTx {
		id := uuid.New()
		if _, err := rs.NewTransaction(&ref.Transaction{ID: id, Status: ref.TSInProgress, Begin: time.Now().Add(-45 * 24 * time.Hour)}); err == nil {
			expired = id.String()
		}
	}
	expiredRefs := 0
	for j := 0; j < p.Refs; j++ {
		i := rng.Intn(p.N)
		name := c12RefName(rng, j, txid)
		if expired != "" && j%3 == 2 {
			name = fmt.Sprintf("txs/%s/b%d", expired, j)
		}
		rs.Set(name, h.sums[i])
		refKinds[name[:strings.IndexByte(name, '/')]] = true
		if expired != "" && strings.HasPrefix(name, "txs/"+expired+"/") && p.Via == "cli-gc" {
			expiredRefs++
			continue
		}
		for a := range h.anc[i] {
			R[a] = true
		}
	}
	// shallow commits: drop the table objects of some commits (as a depth-limited fetch leaves them)
	shallowTables := map[string]bool{}
	for k := 0; k < p.Shallow; k++ {
		i := rng.Intn(p.N)
		shallowTables[string(h.tables[i])] = true
	}
	for t := range shallowTables {
		db.Delete([]byte("tbl/" + t))
		db.Delete([]byte("tblidx/" + t))
		db.Delete([]byte("tblsum/" + t))
	}
	if p.OrphanTable {
		// a table no commit refers to (e.g. left by an aborted commit)
		ingestRows(db, h.cols, h.pk, [][]string{{"zz", "orphan", "1"}})
	}
	class := fmt.Sprintf("shallow=%v", len(shallowTables) > 0)
	before := mon.SnapshotStore(db)
	refsBefore, _ := ref.ListAllRefs(rs)
	// rows of every reachable full commit before pruning
	rowsBefore := map[int][][]string{}
	for i := range R {
		if shallowTables[string(h.tables[i])] {
			continue
		}
		tc, issues := mon.CheckTable(db, h.tables[i], mon.CheckOpts{})
		if len(issues) > 0 || tc == nil {
			closeAll()
			o.Status = "inconclusive"
			o.Note = fmt.Sprintf("table unsound before prune: %v", issues)
			return o
		}
		rowsBefore[i] = tc.Rows
	}
	runPrune := func(label string) bool {
		if p.Via == "pkg" {
			var perr error
			if pn := fw.Catch(func() { perr = prune.Prune(db, rs, nil) }); pn != "" {
				o.Violate("panic/prune.Prune/"+class, "%s prune panicked (commits %d, refs %d, shallow tables %d): %s", label, p.N, p.Refs, len(shallowTables), pn)
				return false
			}
			if perr != nil {
				o.Violate("prune-error/prune.Prune/"+class, "%s prune: %v", label, perr)
				return false
			}
			return true
		}
		closeAll()
		cmd := "prune"
		if p.Via == "cli-gc" {
			cmd = "gc"
		}
		if p.ShortTTL && label == "first" {
			if out, err, pn := mon.Wrgl(wrglDir, nil, "config", "set", "transactionTTL", "2h"); err != nil || pn != "" {
				o.Status = "inconclusive"
				o.Note = fmt.Sprintf("config set transactionTTL: %v %s %s", err, pn, out)
				open()
				return false
			}
			o.Ev("gc_runs_with_a_two_hour_transaction_ttl", 1)
		}
		out, err, pn := mon.Wrgl(wrglDir, nil, cmd, "--no-progress")
		if pn != "" {
			o.Violate("panic/wrgl-"+cmd+"/"+class, "%s: %s", label, pn)
			open()
			return false
		}
		if err != nil {
			o.Violate("prune-error/wrgl-"+cmd+"/"+class, "%s: %v %s", label, err, out)
			open()
			return false
		}
		return open()
	}
	if !runPrune("first") {
		closeAll()
		return o
	}
	after := mon.SnapshotStore(db)
	o.Ev("oracle_evaluations", 1)
	entry := "prune.Prune"
	if p.Via != "pkg" {
		entry = "wrgl-" + p.Via
	}
	// commits = R exactly
	for i := 0; i < p.N; i++ {
		_, ok := after["com/"+string(h.sums[i])]
		if R[i] && !ok {
			o.Violate("reachable-commit-removed/"+entry+"/"+class, "commit %d is reachable from a ref but was removed (refs %v)", i, keysOfB(refsBefore))
			closeAll()
			return o
		}
		if !R[i] && ok {
			o.Violate("unreachable-commit-kept/"+entry+"/"+class, "commit %d is reachable from no ref but survived", i)
			closeAll()
			return o
		}
	}
	// everything a reachable commit had is still there, byte-identical
	liveTables := map[string]bool{}
	liveBlocks := map[string]bool{}
	for i := range R {
		t := string(h.tables[i])
		liveTables[t] = true
		for _, pre := range []string{"tbl/", "tblidx/", "tblsum/"} {
			if v, ok := before[pre+t]; ok && !bytes.Equal(after[pre+t], v) {
				o.Violate("reachable-object-removed/"+entry+"/"+class, "%s of reachable commit %d existed before prune and is gone or changed", pre[:len(pre)-1], i)
				closeAll()
				return o
			}
		}
		if raw, ok := before["tbl/"+t]; ok {
			_, tb, err := objects.ReadTableFrom(bytes.NewReader(raw))
			if err == nil {
				for bi := range tb.Blocks {
					for _, k := range []string{"blk/" + string(tb.Blocks[bi]), "blkidx/" + string(tb.BlockIndices[bi])} {
						liveBlocks[k] = true
						if v, ok := before[k]; ok && !bytes.Equal(after[k], v) {
							o.Violate("reachable-object-removed/"+entry+"/"+class, "%s of reachable commit %d existed before prune and is gone or changed", k[:strings.IndexByte(k, '/')], i)
							closeAll()
							return o
						}
					}
				}
			}
		}
	}
	// tables referenced only by removed commits are gone, with index and profile
	for i := 0; i < p.N; i++ {
		t := string(h.tables[i])
		if R[i] || liveTables[t] {
			continue
		}
		for _, pre := range []string{"tbl/", "tblidx/", "tblsum/"} {
			if _, ok := after[pre+t]; ok {
				o.Violate("unreachable-table-kept/"+entry+"/"+class, "%s of table of removed commit %d (referenced by no surviving commit) survived", pre[:len(pre)-1], i)
				closeAll()
				return o
			}
		}
		// blocks referenced only by removed tables are gone
		if raw, ok := before["tbl/"+t]; ok {
			_, tb, err := objects.ReadTableFrom(bytes.NewReader(raw))
			if err == nil {
				for bi := range tb.Blocks {
					for _, k := range []string{"blk/" + string(tb.Blocks[bi]), "blkidx/" + string(tb.BlockIndices[bi])} {
						if _, ok := after[k]; ok && !liveBlocks[k] {
							o.Violate("unreachable-block-kept/"+entry+"/"+class, "%s referenced only by the table of removed commit %d survived", k[:strings.IndexByte(k, '/')], i)
							closeAll()
							return o
						}
					}
				}
			}
		}
	}
	// full read-back
	for i, rows := range rowsBefore {
		tc, issues := mon.CheckTable(db, h.tables[i], mon.CheckOpts{})
		if len(issues) > 0 || tc == nil {
			o.Violate("reachable-table-unusable/"+entry+"/"+class, "table of reachable commit %d after prune: %v", i, issues)
			closeAll()
			return o
		}
		if len(tc.Rows) != len(rows) {
			o.Violate("reachable-rows-changed/"+entry+"/"+class, "commit %d reads %d rows after prune, %d before", i, len(tc.Rows), len(rows))
			closeAll()
			return o
		}
		for j := range rows {
			if !strEq(rows[j], tc.Rows[j]) {
				o.Violate("reachable-rows-changed/"+entry+"/"+class, "commit %d row %d changed", i, j)
				closeAll()
				return o
			}
		}
		o.Ev("commits_read_back", 1)
	}
	refsAfter, _ := ref.ListAllRefs(rs)
	if len(refsAfter) != len(refsBefore)-expiredRefs {
		o.Violate("refs-changed/"+entry+"/"+class, "refs before %v after %v", keysOfB(refsBefore), keysOfB(refsAfter))
	}
	// a second prune changes nothing
	if runPrune("second") {
		again := mon.SnapshotStore(db)
		if len(again) != len(after) {
			o.Violate("second-prune-changes-store/"+entry+"/"+class, "%d keys after the first prune, %d after the second", len(after), len(again))
		}
	}
	kb, ka := mon.KeysByPrefix(before), mon.KeysByPrefix(after)
	for _, k := range []string{"com", "tbl", "blk", "blkidx", "tblidx", "tblsum"} {
		o.Ev("deleted_"+k, int64(kb[k]-ka[k]))
		o.Ev("kept_"+k, int64(ka[k]))
	}
	if len(shallowTables) > 0 {
		o.Ev("cases_with_shallow_commits", 1)
	}
	for k := range refKinds {
		o.Set("ref_kinds", k)
	}
	removed := 0
	for i := 0; i < p.N; i++ {
		if !R[i] {
			removed++
		}
	}
	if p.N >= 2 {
		o.Key("%s/%s/n%d/removed%d/%d", entry, class, p.N, removed, c.Seed%100000)
	}
	o.Sample = map[string]interface{}{"commits": p.N, "refs": keysOfB(refsBefore), "reachable": len(R), "removed_commits": removed, "shallow_tables": len(shallowTables), "via": p.Via, "keys_before": kb, "keys_after": ka}
	closeAll()
	return o
}

func init() {
	fw.Register(&fw.Property{
		ID:          "C12",
		Level:       "exploration",
		Rule:        "generated repositories: commit DAGs (several roots) whose tables share blocks, also across two different keys (more block indices than blocks); refs of every kind (heads, tags, remotes, txs of a transaction that is open, txs of one that expired 45 days ago - discarded by gc, untouched by prune; in half of the gc cases transactionTTL is configured to two hours and the process runs west of UTC) on a random subset of commits, the rest unreferenced; 0..3 commits made shallow by removing their table objects; optional orphan table; some repositories of several hundred keys on the real badger store; prune.Prune on the in-memory store, `wrgl prune` / `wrgl gc` on badger+sqlite; key sets and bytes before/after compared against graph-model reachability: commits = reachable set exactly, every object of a reachable commit byte-identical, tables/blocks referenced only by removed commits gone, every reachable full commit read back row by row through the structural monitor, no panic, second prune changes nothing; distinct_nontrivial = distinct (entry, shallow, size, removed count, seed)",
		Assumptions: []string{"objects referenced by nothing at all (orphans that never belonged to a commit) may or may not be removed", "the worker runs in a time zone west of UTC (TZ=America/Los_Angeles): transaction times are stored and compared as local-time text"},
		Env:         []string{"TZ=America/Los_Angeles"},
		Gen: func(tier string, seed int64) []fw.Case {
			l := fw.NewCaseList("C12", tier, seed)
			rng := l.Rng()
			for i := 0; i < l.N(200, 15000); i++ {
				p := c12Params{N: 1 + rng.Intn(12), BaseRows: []int{4, 30, 300}[rng.Intn(3)], Via: "pkg"}
				p.Refs = rng.Intn(4)
				if rng.Intn(3) == 0 {
					p.Shallow = 1 + rng.Intn(3)
				}
				p.OrphanTable = rng.Intn(6) == 0
				switch rng.Intn(20) {
				case 0:
					p.Via = "cli"
				case 1:
					p.Via = "cli-gc"
				}
				if p.Via != "pkg" && rng.Intn(2) == 0 {
					// a repository of a few hundred keys on the real badger store (its iterator prefetches 100 items)
					p.N = 25 + rng.Intn(25)
					p.Refs = 2 + rng.Intn(4)
				}
				l.Add("repo", p, 0)
			}
			// gc = transaction clean-up + prune: repositories with an open transaction holding refs
			for i := 0; i < l.N(20, 400); i++ {
				l.Add("gc", c12Params{N: 3 + rng.Intn(8), BaseRows: 4, Refs: 6 + rng.Intn(6), Via: "cli-gc", ExpiredTx: i%2 == 0, ShortTTL: i%4 < 2}, 0)
				if i%4 == 1 {
					l.Add("prune", c12Params{N: 3 + rng.Intn(8), BaseRows: 4, Refs: 6 + rng.Intn(6), Via: "cli", ExpiredTx: true}, 0)
				}
				if i%2 == 0 {
					l.Add("prune-large", c12Params{N: 30 + rng.Intn(30), BaseRows: []int{4, 300}[rng.Intn(2)], Refs: 2 + rng.Intn(3), Via: "cli"}, 0)
				}
			}
			return l.Cases
		},
		Run: c12Run,
	})
}
