package props

import (
	"bytes"
	"errors"
	"fmt"
	"io"
	"math/rand"

	"github.com/wrgl/wrgl/pkg/objects"
	"github.com/wrgl/wrgl/pkg/ref"

	"verif/fw"
)

// c11QueueProgram runs a seeded program of walk operations (pop-and-insert-parents, RemoveAncestors, PopUntil) on a
// CommitsQueue over several heads and compares every returned (sum, commit) pair and the set still to be visited with a
// model: a set of pending commits, a set of commits ever queued, pops newest-first. "A history walk visits every ancestor
// exactly once" is judged on walks that are interrupted and resumed the way fetch negotiation does it.
func c11QueueProgram(o *fw.Obs, d *dag, mode string, rng *rand.Rand) {
	n := len(d.parents)
	if n < 2 {
		return
	}
	times := make([]int64, n)
	for i := range times {
		c, err := objects.GetCommit(d.db, d.sums[i])
		if err != nil {
			return
		}
		times[i] = c.Time.Unix()
	}
	distinctTimes := mode == "increasing" || mode == "decreasing"
	pending, seen := map[int]bool{}, map[int]bool{}
	var heads [][]byte
	for k := 1 + rng.Intn(3); k > 0; k-- {
		h := rng.Intn(n)
		if !seen[h] {
			seen[h], pending[h] = true, true
			heads = append(heads, d.sums[h])
		}
	}
	if rng.Intn(3) == 0 && len(heads) > 0 {
		// several refs on one commit: the same head named more than once
		heads = append(heads, heads[rng.Intn(len(heads))])
		if rng.Intn(2) == 0 {
			heads = append([][]byte{heads[len(heads)-1]}, heads...)
		}
	}
	q, err := ref.NewCommitsQueue(d.db, heads)
	if err != nil {
		o.Violate("error/CommitsQueue/"+mode, "NewCommitsQueue: %v", err)
		return
	}
	var trace []string
	fail := func(clause, f string, a ...interface{}) {
		o.Violate(clause+"/CommitsQueue/"+mode, "%s; parents=%v mode=%s program=%v", fmt.Sprintf(f, a...), d.parents, mode, trace)
	}
	// modelPop removes and returns the set of candidates the queue may pop next (all pending commits of maximal time)
	newest := func() (int64, bool) {
		first := true
		var m int64
		for i := range pending {
			if first || times[i] > m {
				m, first = times[i], false
			}
		}
		return m, !first
	}
	checkPop := func(op string, sum []byte, com *objects.Commit, err error) (int, bool) {
		mt, any := newest()
		if !any {
			if !errors.Is(err, io.EOF) {
				fail("queue-not-empty", "%s returned (%x, %v) although every queued commit was handed out already", op, sum, err)
				return 0, false
			}
			return -1, true
		}
		if err != nil {
			fail("queue-lost-commits", "%s returned %v although %v are still to be visited", op, err, keysOf(pending))
			return 0, false
		}
		idx, ok := d.index[string(sum)]
		if !ok || !pending[idx] {
			fail("queue-pop-not-pending", "%s handed out commit %d (%x), the commits still to be visited are %v", op, idx, sum, keysOf(pending))
			return 0, false
		}
		if times[idx] != mt {
			fail("queue-order", "%s handed out commit %d (time %d) while a newer one (time %d) is queued", op, idx, times[idx], mt)
			return 0, false
		}
		if com == nil || !bytes.Equal(com.Sum, sum) || len(com.Parents) != len(d.parents[idx]) {
			fail("queue-wrong-commit-object", "%s handed out sum of commit %d together with a commit object that is not that commit (object sum %x, %d parents, want %d)", op, idx, objSum(com), objParents(com), len(d.parents[idx]))
			return 0, false
		}
		for j, p := range d.parents[idx] {
			if !bytes.Equal(com.Parents[j], d.sums[p]) {
				fail("queue-wrong-commit-object", "%s: commit object handed out with sum of commit %d has other parents", op, idx)
				return 0, false
			}
		}
		return idx, true
	}
	apply := func(idx int) {
		delete(pending, idx)
		for _, p := range d.parents[idx] {
			if !seen[p] {
				seen[p], pending[p] = true, true
			}
		}
	}
	visited := map[int]int{}
	for step := 0; step < 3*n+4; step++ {
		switch r := rng.Intn(10); {
		case r < 6:
			trace = append(trace, "pop")
			var sum []byte
			var com *objects.Commit
			var err error
			if pn := fw.Catch(func() { sum, com, err = q.PopInsertParents() }); pn != "" {
				fail("panic", "PopInsertParents: %s", pn)
				return
			}
			o.Ev("queue_ops", 1)
			idx, ok := checkPop("PopInsertParents", sum, com, err)
			if !ok {
				return
			}
			if idx >= 0 {
				visited[idx]++
				apply(idx)
			}
		case r < 8:
			var rm [][]byte
			var rmIdx []int
			for k := 1 + rng.Intn(2); k > 0; k-- {
				x := rng.Intn(n)
				rm, rmIdx = append(rm, d.sums[x]), append(rmIdx, x)
			}
			trace = append(trace, fmt.Sprintf("remove-ancestors%v", rmIdx))
			var err error
			if pn := fw.Catch(func() { err = q.RemoveAncestors(rm) }); pn != "" {
				fail("panic", "RemoveAncestors: %s", pn)
				return
			}
			o.Ev("queue_ops", 1)
			o.Ev("queue_remove_ancestors", 1)
			if err != nil {
				fail("error", "RemoveAncestors(%v): %v", rmIdx, err)
				return
			}
			for m := range pending {
				for _, x := range rmIdx {
					if d.anc[x][m] {
						delete(pending, m)
					}
				}
			}
		case r == 8 && distinctTimes:
			b := rng.Intn(n)
			trace = append(trace, fmt.Sprintf("pop-until(%d)", b))
			var sum []byte
			var com *objects.Commit
			var err error
			if pn := fw.Catch(func() { sum, com, err = q.PopUntil(d.sums[b]) }); pn != "" {
				fail("panic", "PopUntil: %s", pn)
				return
			}
			o.Ev("queue_ops", 1)
			// model: pop newest-first, inserting parents, until b comes out or nothing is left
			found := false
			for len(pending) > 0 {
				mt, _ := newest()
				x := -1
				for i := range pending {
					if times[i] == mt {
						x = i
					}
				}
				visited[x]++
				apply(x)
				if x == b {
					found = true
					break
				}
			}
			if found {
				if err != nil || !bytes.Equal(sum, d.sums[b]) || com == nil || !bytes.Equal(com.Sum, sum) {
					fail("queue-pop-until", "PopUntil(%d) should reach it but returned (%x, %v)", b, sum, err)
					return
				}
			} else if !errors.Is(err, io.EOF) {
				fail("queue-pop-until", "PopUntil(%d) cannot reach it (not among the ancestors still to be visited) but returned (%x, %v)", b, sum, err)
				return
			}
		default:
			x := rng.Intn(n)
			if got := q.Seen(d.sums[x]); got != seen[x] {
				trace = append(trace, fmt.Sprintf("seen(%d)", x))
				fail("queue-seen", "Seen(%d)=%v, the model says %v", x, got, seen[x])
				return
			}
		}
	}
	// drain: what is left must come out, each exactly once
	for {
		sum, com, err := q.PopInsertParents()
		idx, ok := checkPop("PopInsertParents (drain)", sum, com, err)
		if !ok {
			return
		}
		if idx < 0 {
			break
		}
		visited[idx]++
		apply(idx)
	}
	for i, k := range visited {
		if k != 1 {
			fail("queue-visited-twice", "commit %d was handed out %d times", i, k)
			return
		}
	}
	o.Ev("queue_programs", 1)
	o.Ev("oracle_evaluations", 1)
}

func objSum(c *objects.Commit) []byte {
	if c == nil {
		return nil
	}
	return c.Sum
}

func objParents(c *objects.Commit) int {
	if c == nil {
		return -1
	}
	return len(c.Parents)
}
