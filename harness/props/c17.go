package props

import (
	"bytes"
	"encoding/binary"
	"fmt"
	"io"
	"math/rand"
	"os"
	"runtime"
	"runtime/debug"
	"strings"
	"time"

	"github.com/go-logr/logr"
	"github.com/klauspost/compress/s2"
	"github.com/pckhoi/meow"
	apiutils "github.com/wrgl/wrgl/pkg/api/utils"
	"github.com/wrgl/wrgl/pkg/dprof"
	"github.com/wrgl/wrgl/pkg/encoding"
	"github.com/wrgl/wrgl/pkg/encoding/packfile"
	"github.com/wrgl/wrgl/pkg/encoding/pktline"
	"github.com/wrgl/wrgl/pkg/misc"
	"github.com/wrgl/wrgl/pkg/objects"

	"verif/fw"
	"verif/gen"
	"verif/mon"
)

// C17 — malformed or hostile bytes are rejected with an error, never a crash.

type c17Params struct {
	Entry  string `json:"entry"`
	Corpus int    `json:"corpus"` // which valid object of the seeded corpus
	Mut    string `json:"mut"`    // truncate | bitflip | field | splice | fixed
	Budget int    `json:"budget"`
	Fixed  []byte `json:"fixed,omitempty"`
}

type countingReader struct {
	r     io.Reader
	calls int64
}

func (c *countingReader) Read(p []byte) (int, error) {
	c.calls++
	return c.r.Read(p)
}

func sizeOfRows(rows [][]string) int {
	n := 24 * len(rows)
	for _, r := range rows {
		n += 16 * len(r)
		for _, s := range r {
			n += len(s)
		}
	}
	return n
}

// c17Entry runs one decoder entry point over the input; returns the approximate size of the
// value it produced and the number of Read calls it made on the source (0 if not stream based).
type c17Entry func(in []byte) (retSize int, reads int64, err error)

var c17Entries = map[string]c17Entry{
	"packfile": func(in []byte) (int, int64, error) {
		cr := &countingReader{r: bytes.NewReader(in)}
		pr, err := packfile.NewPackfileReader(io.NopCloser(cr))
		if err != nil {
			return 0, cr.calls, err
		}
		total := 0
		for i := 0; i < len(in)+4; i++ {
			_, b, err := pr.ReadObject()
			total += len(b)
			if err != nil {
				if err == io.EOF {
					return total, cr.calls, nil
				}
				return total, cr.calls, err
			}
		}
		return total, cr.calls, fmt.Errorf("more objects than bytes")
	},
	"commit": func(in []byte) (int, int64, error) {
		cr := &countingReader{r: bytes.NewReader(in)}
		_, c, err := objects.ReadCommitFrom(cr)
		n := 0
		if c != nil {
			n = len(c.Message) + len(c.AuthorName) + len(c.AuthorEmail) + 40*len(c.Parents)
		}
		return n, cr.calls, err
	},
	"table": func(in []byte) (int, int64, error) {
		cr := &countingReader{r: bytes.NewReader(in)}
		_, t, err := objects.ReadTableFrom(cr)
		n := 0
		if t != nil && err == nil {
			n = 40*(len(t.Blocks)+len(t.BlockIndices)) + 16*len(t.Columns)
			for _, c := range t.Columns {
				n += len(c)
			}
		}
		return n, cr.calls, err
	},
	"block": func(in []byte) (int, int64, error) {
		cr := &countingReader{r: bytes.NewReader(in)}
		_, blk, err := objects.ReadBlockFrom(cr)
		return sizeOfRows(blk), cr.calls, err
	},
	"validate-block": func(in []byte) (int, int64, error) {
		return 0, 0, objects.ValidateBlockBytes(in)
	},
	"validate-strlist": func(in []byte) (int, int64, error) {
		_, err := objects.ValidateStrListBytes(in)
		return 0, 0, err
	},
	"blockindex": func(in []byte) (int, int64, error) {
		cr := &countingReader{r: bytes.NewReader(in)}
		_, idx, err := objects.ReadBlockIndex(cr)
		n := 0
		if idx != nil && err == nil {
			n = 56 * idx.Len()
		}
		return n, cr.calls, err
	},
	"profile": func(in []byte) (int, int64, error) {
		cr := &countingReader{r: bytes.NewReader(in)}
		tp := &objects.TableProfile{}
		_, err := tp.ReadFrom(cr)
		n := 0
		if err == nil {
			for _, c := range tp.Columns {
				n += 200 + len(c.Name) + 8*len(c.Percentiles)
				for _, v := range c.TopValues {
					n += 24 + len(v.Value)
				}
			}
		}
		return n, cr.calls, err
	},
	"strlist-read": func(in []byte) (int, int64, error) {
		cr := &countingReader{r: bytes.NewReader(in)}
		_, sl, err := objects.NewStrListDecoder(false).Read(cr)
		return sizeOfRows([][]string{sl}), cr.calls, err
	},
	"strlist-readbytes": func(in []byte) (int, int64, error) {
		cr := &countingReader{r: bytes.NewReader(in)}
		n, _, err := objects.NewStrListDecoder(false).ReadBytes(cr)
		return n, cr.calls, err
	},
	"uintlist": func(in []byte) (int, int64, error) {
		cr := &countingReader{r: bytes.NewReader(in)}
		_, sl, err := objects.NewUintListDecoder(false).Read(cr)
		return 4 * len(sl), cr.calls, err
	},
	"pktline": func(in []byte) (int, int64, error) {
		cr := &countingReader{r: bytes.NewReader(in)}
		p := encoding.NewParser(cr)
		total := 0
		for i := 0; i < len(in)+2; i++ {
			s, err := pktline.ReadPktLine(p)
			total += len(s)
			if err != nil {
				if err == io.EOF {
					return total, cr.calls, nil
				}
				return total, cr.calls, err
			}
		}
		return total, cr.calls, nil
	},
	// objects.Get* over a store holding the bytes
	"get-commit": func(in []byte) (int, int64, error) {
		db := mon.NewMemStore()
		k := make([]byte, 16)
		db.Set(append([]byte("com/"), k...), in)
		c, err := objects.GetCommit(db, k)
		n := 0
		if err == nil && c != nil {
			n = len(c.Message)
		}
		return n, 0, err
	},
	"get-table": func(in []byte) (int, int64, error) {
		db := mon.NewMemStore()
		k := make([]byte, 16)
		db.Set(append([]byte("tbl/"), k...), in)
		t, err := objects.GetTable(db, k)
		n := 0
		if err == nil && t != nil {
			n = 40 * (len(t.Blocks) + len(t.BlockIndices))
		}
		return n, 0, err
	},
	"get-block": func(in []byte) (int, int64, error) {
		db := mon.NewMemStore()
		k := make([]byte, 16)
		db.Set(append([]byte("blk/"), k...), in)
		blk, _, err := objects.GetBlock(db, nil, k)
		return sizeOfRows(blk), 0, err
	},
	"get-blockindex": func(in []byte) (int, int64, error) {
		db := mon.NewMemStore()
		k := make([]byte, 16)
		db.Set(append([]byte("blkidx/"), k...), in)
		idx, _, err := objects.GetBlockIndex(db, nil, k)
		n := 0
		if err == nil && idx != nil {
			n = 56 * idx.Len()
		}
		return n, 0, err
	},
	"get-tableindex": func(in []byte) (int, int64, error) {
		db := mon.NewMemStore()
		k := make([]byte, 16)
		db.Set(append([]byte("tblidx/"), k...), in)
		idx, err := objects.GetTableIndex(db, k)
		return sizeOfRows(idx), 0, err
	},
	"get-profile": func(in []byte) (int, int64, error) {
		db := mon.NewMemStore()
		k := make([]byte, 16)
		db.Set(append([]byte("tblsum/"), k...), in)
		_, err := objects.GetTableProfile(db, k)
		return 0, 0, err
	},
}

// c17Corpus returns valid encodings for an entry point (seeded).
func c17Corpus(entry string, rng *rand.Rand) [][]byte {
	mkRows := func(n, cols int) [][]string {
		rows := make([][]string, n)
		for i := range rows {
			rows[i] = make([]string, cols)
			for j := range rows[i] {
				rows[i][j] = gen.Cell(rng, gen.CellHostile)
			}
		}
		return rows
	}
	blockBytes := func(n, cols int) []byte {
		var buf bytes.Buffer
		objects.WriteBlockTo(objects.NewStrListEncoder(true), &buf, mkRows(n, cols))
		return buf.Bytes()
	}
	commitBytes := func(parents int) []byte {
		c := &objects.Commit{Table: rand16(rng), AuthorName: "Ann", AuthorEmail: "a@x", Message: genText(rng, rng.Intn(40)), Time: time.Unix(1600000000, 0)}
		for i := 0; i < parents; i++ {
			c.Parents = append(c.Parents, rand16(rng))
		}
		var buf bytes.Buffer
		c.WriteTo(&buf)
		return buf.Bytes()
	}
	tableBytes := func(rows uint32) []byte {
		t := objects.NewTable([]string{"id", "a", "b"}, []uint32{0})
		t.RowsCount = rows
		for i := uint32(0); i < (rows+254)/255; i++ {
			t.Blocks = append(t.Blocks, rand16(rng))
			t.BlockIndices = append(t.BlockIndices, rand16(rng))
		}
		var buf bytes.Buffer
		t.WriteTo(&buf)
		return buf.Bytes()
	}
	blockIndexBytes := func(n int) []byte {
		idx, _ := objects.IndexBlock(objects.NewStrListEncoder(true), meow.New(0), mkRows(n, 3), []uint32{0})
		var buf bytes.Buffer
		idx.WriteTo(&buf)
		return buf.Bytes()
	}
	profileBytes := func() []byte {
		pr := dprof.NewProfiler([]string{"a", "b"})
		for i := 0; i < 30; i++ {
			pr.Process([]string{fmt.Sprint(i * 3), gen.Cell(rng, gen.CellSimple)})
		}
		var buf bytes.Buffer
		pr.Summarize().WriteTo(&buf)
		return buf.Bytes()
	}
	switch entry {
	case "packfile":
		var out [][]byte
		for k := 0; k < 3; k++ {
			var buf bytes.Buffer
			pw, _ := packfile.NewPackfileWriter(&buf)
			for i := 0; i <= k*2; i++ {
				switch i % 3 {
				case 0:
					pw.WriteObject(packfile.ObjectBlock, s2.EncodeBetter(nil, blockBytes(2+i, 2)))
				case 1:
					pw.WriteObject(packfile.ObjectTable, tableBytes(uint32(2+i)))
				default:
					pw.WriteObject(packfile.ObjectCommit, commitBytes(i%3))
				}
			}
			out = append(out, buf.Bytes())
		}
		return out
	case "commit", "get-commit":
		return [][]byte{commitBytes(0), commitBytes(1), commitBytes(3)}
	case "table", "get-table":
		return [][]byte{tableBytes(0), tableBytes(3), tableBytes(600)}
	case "block", "validate-block", "get-tableindex":
		return [][]byte{blockBytes(1, 1), blockBytes(3, 3), blockBytes(20, 2)}
	case "get-block":
		return [][]byte{s2.EncodeBetter(nil, blockBytes(1, 1)), s2.EncodeBetter(nil, blockBytes(5, 3))}
	case "blockindex":
		return [][]byte{blockIndexBytes(1), blockIndexBytes(7)}
	case "get-blockindex":
		return [][]byte{s2.EncodeBetter(nil, blockIndexBytes(1)), s2.EncodeBetter(nil, blockIndexBytes(7))}
	case "profile", "get-profile":
		// the third one declares only two of the twelve known fields in its header (the format allows any subset)
		short := func() []byte {
			u16 := func(v uint16) []byte { return []byte{byte(v >> 8), byte(v)} }
			u32 := func(v uint32) []byte { return []byte{byte(v >> 24), byte(v >> 16), byte(v >> 8), byte(v)} }
			var b bytes.Buffer
			b.WriteString("version ")
			b.Write(u32(1))
			b.WriteString("\nfields ")
			b.Write(objects.NewStrListEncoder(false).Encode([]string{"name", "naCount"}))
			b.WriteString("\nrowsCount ")
			b.Write(u32(10))
			b.WriteString("\ncolsCount ")
			b.Write(u32(2))
			b.WriteString("\ncolumns ")
			for _, name := range []string{"a", "b"} {
				b.Write(u16(1))
				b.Write(u16(uint16(len(name))))
				b.WriteString(name)
				b.Write(u16(2))
				b.Write(u32(7))
				b.Write(u16(0))
			}
			b.WriteString("\n")
			return b.Bytes()
		}
		return [][]byte{profileBytes(), profileBytes(), short()}
	case "strlist-read", "strlist-readbytes", "validate-strlist":
		return [][]byte{mon.EncodeStrList([]string{}), mon.EncodeStrList([]string{"a", "", "bcd"}), mon.EncodeStrList(mkRows(1, 6)[0])}
	case "uintlist":
		return [][]byte{objects.NewUintListEncoder().Encode(nil), objects.NewUintListEncoder().Encode([]uint32{1, 2, 70000})}
	case "pktline":
		var buf bytes.Buffer
		b := misc.NewBuffer(nil)
		for _, s := range []string{"hello", "", "want 0123456789abcdef", "x"} {
			pktline.WritePktLine(&buf, b, s)
		}
		return [][]byte{buf.Bytes()}
	}
	return nil
}

var c17Boundary = []uint64{0, 1, 0x7F, 0x80, 0xFF, 0xFFFD, 0xFFFE, 0xFFFF, 0x7FFFFFFF, 0xFFFFFFFE, 0xFFFFFFFF}

var c17Small = []uint64{2, 3, 4, 5, 6, 7, 8, 9, 10, 11, 12, 13, 14, 15, 16, 17}

// c17Windows sets every window of the given widths to every given value; above the budget the (offset, width, value)
// space is sampled with a fixed stride from a seeded start, so that all offsets are visited, not only the first ones.
func c17Windows(valid []byte, widths []int, vals []uint64, name string, rng *rand.Rand, budget int, f func(in []byte, label string) bool) {
	n := len(valid)
	type combo struct {
		off, w int
		v      uint64
	}
	var all []combo
	for off := 0; off < n; off++ {
		for _, w := range widths {
			if off+w > n {
				continue
			}
			for _, v := range vals {
				if w == 1 && v > 0xFF || w == 2 && v > 0xFFFF {
					continue
				}
				all = append(all, combo{off, w, v})
			}
		}
	}
	step, start := 1, 0
	if budget > 0 && len(all) > budget {
		step = len(all)/budget + 1
		// a stride coprime with the number of values per offset, so that every value meets every offset class
		for step%2 == 0 || step%3 == 0 || step%5 == 0 || step%7 == 0 || step%11 == 0 {
			step++
		}
		start = rng.Intn(step)
	}
	for i := start; i < len(all); i += step {
		c := all[i]
		m := append([]byte(nil), valid...)
		switch c.w {
		case 1:
			m[c.off] = byte(c.v)
		case 2:
			binary.BigEndian.PutUint16(m[c.off:], uint16(c.v))
		default:
			binary.BigEndian.PutUint32(m[c.off:], uint32(c.v))
		}
		if !f(m, fmt.Sprintf("%s@%d/w%d=%#x", name, c.off, c.w, c.v)) {
			return
		}
	}
}

var c17ASCII = []uint64{'-', '+', ' ', '\t', '\n', '\r', '0', '9', 'a', 'f', 'g', 'F', 'G', 'x', 'X', '.', ',', ':', ';', '/', '"', '\'', '\\', '#', '%', '_', '{', '[', 0x7F}

// c17Mutants enumerates the mutants of one valid encoding.
func c17Mutants(valid []byte, mut string, rng *rand.Rand, budget int, f func(in []byte, label string) bool) {
	n := len(valid)
	switch mut {
	case "truncate":
		for i := 0; i < n; i++ {
			if !f(valid[:i], fmt.Sprintf("truncate@%d", i)) {
				return
			}
		}
	case "bitflip":
		total := n * 8
		step := 1
		if total > budget {
			step = total/budget + 1
		}
		for b := 0; b < total; b += step {
			m := append([]byte(nil), valid...)
			m[b/8] ^= 1 << uint(b%8)
			if !f(m, fmt.Sprintf("bitflip@%d.%d", b/8, b%8)) {
				return
			}
		}
	case "field":
		// every 1-, 2- and 4-byte window set to every boundary value: a superset of the count/length fields
		c17Windows(valid, []int{1, 2, 4}, c17Boundary, "field", rng, budget, f)
	case "index":
		// every 1- and 2-byte window set to every small value: tags, field numbers, indices into short tables
		c17Windows(valid, []int{1, 2}, c17Small, "index", rng, budget, f)
	case "ascii":
		// every byte replaced by the characters text parsers trip over: signs, blanks, separators, hex / non-hex letters
		c17Windows(valid, []int{1}, c17ASCII, "ascii", rng, budget, f)
	case "field2":
		// two fields at once: a forged leading count together with every later 16-bit window at a boundary value
		cnt := 0
		for _, c := range []uint32{0xFFFFFFFF, 0x7FFFFFFF, 0x10000} {
			for off := 4; off+2 <= n && off < 200; off++ {
				for _, v := range c17Boundary {
					if v > 0xFFFF {
						continue
					}
					m := append([]byte(nil), valid...)
					if n >= 4 {
						binary.BigEndian.PutUint32(m, c)
					}
					binary.BigEndian.PutUint16(m[off:], uint16(v))
					cnt++
					if budget > 0 && cnt > budget {
						return
					}
					if !f(m, fmt.Sprintf("field2:count=%#x,@%d=%#x", c, off, v)) {
						return
					}
				}
			}
		}
	case "splice":
		for i := 0; i < budget; i++ {
			m := append([]byte(nil), valid...)
			switch rng.Intn(4) {
			case 0: // duplicate a slice
				if n > 2 {
					a := rng.Intn(n - 1)
					b := a + 1 + rng.Intn(n-a-1)
					m = append(append(append([]byte(nil), valid[:b]...), valid[a:b]...), valid[b:]...)
				}
			case 1: // delete a slice
				if n > 2 {
					a := rng.Intn(n - 1)
					b := a + 1 + rng.Intn(n-a-1)
					m = append(append([]byte(nil), valid[:a]...), valid[b:]...)
				}
			case 2: // random bytes in the middle
				if n > 0 {
					a := rng.Intn(n)
					junk := make([]byte, 1+rng.Intn(8))
					rng.Read(junk)
					m = append(append(append([]byte(nil), valid[:a]...), junk...), valid[a:]...)
				}
			default: // append junk
				junk := make([]byte, 1+rng.Intn(16))
				rng.Read(junk)
				m = append(m, junk...)
			}
			if !f(m, fmt.Sprintf("splice#%d", i)) {
				return
			}
		}
	}
}

func c17Run(c *fw.Case, env *fw.Env) *fw.Obs {
	o := fw.NewObs(c)
	var p c17Params
	c.P(&p)
	if p.Entry == "receive" {
		return c17Receive(c, env, o, &p)
	}
	if strings.HasPrefix(p.Entry, "reply-") {
		return c17Reply(c, env, o, &p)
	}
	rng := c.Rand()
	entry := c17Entries[p.Entry]
	if entry == nil {
		o.Status = "inconclusive"
		o.Note = "unknown entry " + p.Entry
		return o
	}
	canary := os.Getenv("VERIF_CANARY_FILE")
	var ms runtime.MemStats
	var maxAllocRatio, maxReadRatio float64
	check := func(in []byte, label string) bool {
		if canary != "" {
			os.WriteFile(canary, in, 0644)
		}
		runtime.ReadMemStats(&ms)
		before := ms.TotalAlloc
		var ret int
		var reads int64
		var err error
		var pn string
		// work out of proportion: a decoder normally needs microseconds for these inputs (all far below 1 MiB).
		// A call that is still running after 8 s is re-timed once on its own; only if it again needs more than
		// 8 s (a factor of about 10^6 over normal) is it reported. No verdict rests on a single timing.
		slow := func() (finished bool) {
			done := make(chan struct{})
			go func() {
				defer close(done)
				pn = fw.Catch(func() { ret, reads, err = entry(in) })
			}()
			select {
			case <-done:
				return true
			case <-time.After(8 * time.Second):
			}
			select {
			case <-done:
			case <-time.After(150 * time.Second):
			}
			return false
		}
		if !slow() {
			if !slow() {
				o.Violate("work-out-of-proportion/"+p.Entry, "%s: the decoder needed more than 8 s (twice) for a %d-byte input %x…", label, len(in), head(in, 48))
				return false
			}
		}
		runtime.ReadMemStats(&ms)
		alloc := int64(ms.TotalAlloc - before)
		if alloc > 256<<20 {
			// give a large allocation back at once: under the address-space limit it would otherwise make a later,
			// innocent input die of memory exhaustion at an arbitrary place
			debug.FreeOSMemory()
		}
		o.Ev("oracle_evaluations", 1)
		o.Ev("inputs_"+p.Mut, 1)
		if err != nil {
			o.Ev("rejected_with_error", 1)
		} else {
			o.Ev("accepted", 1)
		}
		if pn != "" {
			o.Violate("panic/"+p.Entry+"/"+fw.PanicSite(pn), "%s on %d-byte input %x…: %s", label, len(in), head(in, 48), firstLines(pn, 12))
			return len(o.Viols) < 4
		}
		bound := int64(64*(len(in)+ret)) + 4<<20
		if r := float64(alloc) / float64(bound); r > maxAllocRatio {
			maxAllocRatio = r
		}
		if alloc > bound {
			cause := ""
			if p.Entry == "get-block" || p.Entry == "get-blockindex" {
				if dl, e := s2.DecodedLen(in); e == nil && int64(dl) > bound/2 {
					cause = "/s2-declared-length"
				}
			}
			o.Violate("allocation-out-of-proportion/"+p.Entry+cause, "%s: %d-byte input %x… made the decoder allocate %d bytes (returned value ~%d bytes, bound %d)", label, len(in), head(in, 48), alloc, ret, bound)
			return len(o.Viols) < 4
		}
		rb := int64(4*len(in) + 64)
		if r := float64(reads) / float64(rb); r > maxReadRatio {
			maxReadRatio = r
		}
		if reads > rb {
			o.Violate("reads-out-of-proportion/"+p.Entry, "%s: %d Read calls on a %d-byte input", label, reads, len(in))
			return len(o.Viols) < 4
		}
		return true
	}
	if p.Mut == "fixed" {
		check(p.Fixed, "fixed")
	} else {
		corpus := c17Corpus(p.Entry, rng)
		if len(corpus) == 0 {
			o.Status = "inconclusive"
			o.Note = "no corpus for " + p.Entry
			return o
		}
		valid := corpus[p.Corpus%len(corpus)]
		if !check(valid, "valid") {
			return o
		}
		c17Mutants(valid, p.Mut, rng, p.Budget, check)
	}
	o.Max("max_alloc_per_mille_of_bound", int64(maxAllocRatio*1000))
	o.Max("max_reads_per_mille_of_bound", int64(maxReadRatio*1000))
	o.Key("%s/%s/%d", p.Entry, p.Mut, p.Corpus)
	o.Sample = map[string]interface{}{"entry": p.Entry, "mutation": p.Mut, "inputs": o.Events["oracle_evaluations"], "rejected": o.Events["rejected_with_error"], "accepted": o.Events["accepted"], "max_alloc_ratio": maxAllocRatio}
	return o
}

func head(b []byte, n int) []byte {
	if len(b) > n {
		return b[:n]
	}
	return b
}

func firstLines(s string, n int) string {
	ls := strings.Split(s, "\n")
	if len(ls) > n {
		ls = ls[:n]
	}
	return strings.Join(ls, "\n")
}

// c17Receive feeds mutated packfiles to ObjectReceiver.Receive and checks that nothing from a
// rejected object is left visible.
func c17Receive(c *fw.Case, env *fw.Env, o *fw.Obs, p *c17Params) *fw.Obs {
	rng := c.Rand()
	src := mon.NewMemStore()
	h, err := buildHistory(src, rng, histOpts{N: 3, BaseRows: 4})
	if err != nil {
		o.Status = "inconclusive"
		o.Note = err.Error()
		return o
	}
	var toSend []*objects.Commit
	tables := map[string]struct{}{}
	var expected [][]byte
	for i := range h.sums {
		cm, _ := objects.GetCommit(src, h.sums[i])
		toSend = append(toSend, cm)
		tables[string(h.tables[i])] = struct{}{}
		expected = append(expected, h.sums[i])
	}
	sender, err := apiutils.NewObjectSender(src, toSend, tables, nil, 0)
	if err != nil {
		o.Status = "inconclusive"
		o.Note = err.Error()
		return o
	}
	var buf bytes.Buffer
	if _, _, err := sender.WriteObjects(&buf, nil); err != nil {
		o.Status = "inconclusive"
		o.Note = err.Error()
		return o
	}
	valid := buf.Bytes()
	canary := os.Getenv("VERIF_CANARY_FILE")
	var ms runtime.MemStats
	check := func(in []byte, label string) bool {
		if canary != "" {
			os.WriteFile(canary, in, 0644)
		}
		dst := mon.NewMemStore()
		runtime.ReadMemStats(&ms)
		before := ms.TotalAlloc
		var rerr error
		var pn string
		attempt := func() bool {
			done := make(chan struct{})
			go func() {
				defer close(done)
				pn = fw.Catch(func() {
					pr, err := packfile.NewPackfileReader(io.NopCloser(bytes.NewReader(in)))
					if err != nil {
						rerr = err
						return
					}
					_, rerr = apiutils.NewObjectReceiver(dst, expected, logr.Discard()).Receive(pr, nil)
				})
			}()
			select {
			case <-done:
				return true
			case <-time.After(8 * time.Second):
			}
			select {
			case <-done:
			case <-time.After(150 * time.Second):
			}
			return false
		}
		if !attempt() {
			dst = mon.NewMemStore()
			if !attempt() {
				o.Violate("work-out-of-proportion/receive", "%s: Receive needed more than 8 s (twice) for a %d-byte packfile", label, len(in))
				return false
			}
		}
		runtime.ReadMemStats(&ms)
		alloc := int64(ms.TotalAlloc - before)
		if alloc > 256<<20 {
			// give a large allocation back at once: under the address-space limit it would otherwise make a later,
			// innocent input die of memory exhaustion at an arbitrary place
			debug.FreeOSMemory()
		}
		o.Ev("oracle_evaluations", 1)
		o.Ev("inputs_"+p.Mut, 1)
		if pn != "" {
			o.Violate("panic/receive/"+fw.PanicSite(pn), "%s on %d-byte packfile: %s", label, len(in), firstLines(pn, 12))
			return len(o.Viols) < 4
		}
		stored := 0
		for _, v := range dst.Snapshot() {
			stored += len(v)
		}
		if bound := int64(64*(len(in)+stored)) + 8<<20; alloc > bound {
			cause := ""
			if pr, err := packfile.NewPackfileReader(io.NopCloser(bytes.NewReader(in))); err == nil {
				for i := 0; i < 1000; i++ {
					ot, b, err := pr.ReadObject()
					if ot == packfile.ObjectBlock {
						if dl, e := s2.DecodedLen(b); e == nil && int64(dl) > bound/2 {
							cause = "/s2-declared-length"
						}
					}
					if err != nil {
						break
					}
				}
			}
			o.Violate("allocation-out-of-proportion/receive"+cause, "%s: %d-byte packfile made Receive allocate %d bytes (bound %d)", label, len(in), alloc, bound)
			return len(o.Viols) < 4
		}
		if rerr != nil {
			o.Ev("rejected_with_error", 1)
		} else {
			o.Ev("accepted", 1)
		}
		// whatever is visible afterwards is consistent: commits have parents, present tables are usable
		snap := dst.Snapshot()
		for k := range snap {
			switch {
			case strings.HasPrefix(k, "com/"):
				cm, err := objects.GetCommit(dst, []byte(k[4:]))
				if err != nil {
					o.Violate("unreadable-commit-visible/receive", "%s: %v", label, err)
					return false
				}
				for _, pp := range cm.Parents {
					if !objects.CommitExist(dst, pp) {
						o.Violate("commit-accepted-without-parent/receive", "%s: commit stored although parent %x is missing", label, pp)
						return false
					}
				}
			case strings.HasPrefix(k, "tbl/"):
				if _, is := mon.CheckTable(dst, []byte(k[4:]), mon.CheckOpts{}); len(is) > 0 {
					o.Violate("rejected-table-left-visible/receive", "%s: table %x is reported present but %s", label, k[4:], is[0])
					return false
				}
			}
		}
		return true
	}
	if !check(valid, "valid") {
		return o
	}
	if p.Mut == "forged" {
		// well-formed objects that disagree with one another: the table object is re-encoded with one field changed
		pr, _ := packfile.NewPackfileReader(io.NopCloser(bytes.NewReader(valid)))
		type pobj struct {
			t int
			b []byte
		}
		var objs []pobj
		for {
			ot, b, err := pr.ReadObject()
			if ot != 0 {
				objs = append(objs, pobj{ot, b})
			}
			if err != nil {
				break
			}
		}
		repack := func(objs []pobj) []byte {
			var nb bytes.Buffer
			pw, _ := packfile.NewPackfileWriter(&nb)
			for _, ob := range objs {
				pw.WriteObject(ob.t, ob.b)
			}
			return nb.Bytes()
		}
		forge := func(name string, f func(t *objects.Table)) {
			for i, ob := range objs {
				if ob.t != packfile.ObjectTable {
					continue
				}
				_, t, err := objects.ReadTableFrom(bytes.NewReader(ob.b))
				if err != nil {
					continue
				}
				f(t)
				var tb bytes.Buffer
				if pn := fw.Catch(func() { t.WriteTo(&tb) }); pn != "" {
					continue
				}
				mod := append([]pobj(nil), objs...)
				mod[i] = pobj{packfile.ObjectTable, tb.Bytes()}
				check(repack(mod), fmt.Sprintf("forged-%s@obj%d", name, i))
			}
		}
		forge("more-columns", func(t *objects.Table) { t.Columns = append(t.Columns, "extra1", "extra2") })
		forge("fewer-columns", func(t *objects.Table) { t.Columns = t.Columns[:1] })
		forge("no-columns", func(t *objects.Table) { t.Columns = nil; t.PK = nil })
		forge("pk-out-of-range", func(t *objects.Table) { t.PK = []uint32{7} })
		forge("pk-other-column", func(t *objects.Table) { t.PK = []uint32{1} })
		forge("rows-plus-one", func(t *objects.Table) { t.RowsCount++ })
		forge("rows-minus-one", func(t *objects.Table) {
			if t.RowsCount > 0 {
				t.RowsCount--
			}
		})
		forge("index-sums-swapped", func(t *objects.Table) {
			for i := range t.BlockIndices {
				t.BlockIndices[i] = append([]byte(nil), t.Blocks[i]...)
			}
		})
		forge("unknown-block", func(t *objects.Table) {
			if len(t.Blocks) > 0 {
				t.Blocks[0] = bytes.Repeat([]byte{0xAB}, 16)
			}
		})
		// table first, then its blocks; commit first; objects dropped
		if len(objs) > 1 {
			rev := make([]pobj, len(objs))
			for i := range objs {
				rev[len(objs)-1-i] = objs[i]
			}
			check(repack(rev), "forged-reversed-order")
			for i := range objs {
				mod := append(append([]pobj(nil), objs[:i]...), objs[i+1:]...)
				check(repack(mod), fmt.Sprintf("forged-drop-obj%d", i))
			}
		}
	} else {
		c17Mutants(valid, p.Mut, rng, p.Budget, check)
	}
	o.Key("receive/%s/%d", p.Mut, c.Seed%1000)
	o.Sample = map[string]interface{}{"entry": "receive", "mutation": p.Mut, "packfile_bytes": len(valid), "inputs": o.Events["oracle_evaluations"], "rejected": o.Events["rejected_with_error"]}
	return o
}

func init() {
	entries := []string{"packfile", "commit", "table", "block", "validate-block", "validate-strlist", "blockindex", "profile", "strlist-read", "strlist-readbytes", "uintlist", "pktline", "get-commit", "get-table", "get-block", "get-blockindex", "get-tableindex", "get-profile"}
	fw.Register(&fw.Property{
		ID:          "C17",
		Level:       "exploration",
		MemLimitKB:  6 << 20,
		Workers:     12,
		Rule:        "for every decoder entry point (packfile reader loop, commit, table, block, block validation, string list read/readbytes/validation, block index, profile, uint list, pkt-line, objects.Get* through a store incl. the s2 layer) and ObjectReceiver.Receive: a seeded corpus of valid encodings is mutated structurally - every truncation, every single-bit flip (sampled above the budget), every 1/2/4-byte window set to {0,1,0x7F,0x80,0xFF,0xFFFD..0xFFFF,2^31-1,2^32-2,2^32-1} (a superset of all count and length fields) and every 1/2-byte window set to 2..17 (tags, field numbers, indices into short tables), strided over all offsets when above the budget, slice duplication/deletion/junk splices - plus hand-made hostile headers; per input the oracle demands: the call returns, no panic (recovered or fatal: workers run under a 6 GiB address-space limit so that a multi-GB allocation is a prompt, attributable death; the input is written to a canary file first), bytes allocated (TotalAlloc delta) <= 64 x (input + returned value) + 4 MiB, Read calls <= 4 x len + 64; after Receive, whatever is visible is consistent; distinct_nontrivial = distinct (entry point, mutation family, corpus object)",
		Assumptions: []string{"inputs are sampled around valid encodings, where decoders go deep", "StrListDecoder.Decode / UintListDecoder.Decode have no error return and are only applied to validated bytes: not entry points"},
		Gen: func(tier string, seed int64) []fw.Case {
			l := fw.NewCaseList("C17", tier, seed)
			// hand-made hostile inputs (#14, #19)
			u32 := func(v uint32) []byte { b := make([]byte, 4); binary.BigEndian.PutUint32(b, v); return b }
			l.Add("fixed", c17Params{Entry: "block", Mut: "fixed", Fixed: u32(0xFFFFFFFF)}, 17)
			l.Add("fixed", c17Params{Entry: "block", Mut: "fixed", Fixed: append(u32(1), u32(0xFFFFFFFF)...)}, 18)
			l.Add("fixed", c17Params{Entry: "validate-block", Mut: "fixed", Fixed: u32(5)}, 19)
			l.Add("fixed", c17Params{Entry: "validate-strlist", Mut: "fixed", Fixed: []byte{0, 0}}, 20)
			l.Add("fixed", c17Params{Entry: "packfile", Mut: "fixed", Fixed: append([]byte("PACK\x00\x00\x00\x01"), 0x9F, 0xFF, 0xFF, 0xFF, 0xFF, 0xFF, 0x7F)}, 21)
			l.Add("fixed", c17Params{Entry: "get-block", Mut: "fixed", Fixed: []byte{0xFF, 0xFF, 0xFF, 0xFF, 0x0F, 0x00, 0x00}}, 22)
			l.Add("fixed", c17Params{Entry: "uintlist", Mut: "fixed", Fixed: u32(0xFFFFFFFF)}, 23)
			budget := l.N(600, 40000)
			for _, e := range []string{"validate-strlist", "validate-block", "strlist-read", "strlist-readbytes", "block", "uintlist", "get-tableindex"} {
				for corpus := 0; corpus < 3; corpus++ {
					l.Add(e, c17Params{Entry: e, Corpus: corpus, Mut: "field2", Budget: budget}, 0)
				}
			}
			// a block whose only row claims 2^32-1 cells of length 0xFFFE / 0xFFFF (nothing of it is there)
			for i, lp := range []uint16{0xFFFD, 0xFFFE, 0xFFFF} {
				row := append(u32(0xFFFFFFFF), byte(lp>>8), byte(lp), byte(lp>>8), byte(lp), byte(lp>>8), byte(lp))
				l.Add("fixed", c17Params{Entry: "validate-strlist", Mut: "fixed", Fixed: row}, int64(30+i))
				l.Add("fixed", c17Params{Entry: "validate-block", Mut: "fixed", Fixed: append(u32(1), row...)}, int64(40+i))
			}
			for _, e := range entries {
				for corpus := 0; corpus < 3; corpus++ {
					for _, m := range []string{"truncate", "bitflip", "field", "index", "ascii", "splice"} {
						b := budget
						if m == "splice" {
							b = budget / 4
						}
						if m == "ascii" {
							b = budget * 12 // one width only, microseconds each: small text encodings are covered completely
						}
						l.Add(e, c17Params{Entry: e, Corpus: corpus, Mut: m, Budget: b}, 0)
					}
				}
			}
			// replies of a remote, one reply of a recorded exchange replaced by a mutant
			for corpus := 0; corpus < l.N(2, 4); corpus++ {
				for _, m := range []string{"json", "bytes", "ctype"} {
					l.Add("reply-refs", c17Params{Entry: "reply-refs", Corpus: corpus, Mut: m, Budget: budget / 2}, 0)
					l.Add("reply-fetch", c17Params{Entry: "reply-fetch", Corpus: corpus, Mut: m, Budget: budget}, 0)
					l.Add("reply-cli-fetch", c17Params{Entry: "reply-cli-fetch", Corpus: corpus, Mut: m, Budget: l.N(60, 250)}, 0)
					l.Add("reply-cli-push", c17Params{Entry: "reply-cli-push", Corpus: corpus, Mut: m, Budget: l.N(60, 250)}, 0)
				}
			}
			for i := 0; i < l.N(2, 8); i++ {
				for _, m := range []string{"truncate", "bitflip", "field", "splice", "forged"} {
					l.Add("receive", c17Params{Entry: "receive", Mut: m, Budget: budget / 2}, 0)
				}
			}
			return l.Cases
		},
		Classify: func(c *fw.Case) string {
			var p c17Params
			c.P(&p)
			return p.Entry
		},
		CaseTimeoutS: 1800,
		Run:          c17Run,
	})
}
