package props

import (
	"bytes"
	"database/sql"
	"errors"
	"fmt"
	"io"
	"math/rand"
	"os"
	"path/filepath"
	"sort"
	"strings"
	"time"

	"github.com/google/uuid"
	"github.com/wrgl/wrgl/pkg/objects"
	"github.com/wrgl/wrgl/pkg/ref"
	"github.com/wrgl/wrgl/pkg/transaction"

	"verif/fw"
	"verif/mon"
)

// C14 — a transaction's commits land on all of its branches or on none.

type c14Params struct {
	K        int    `json:"k"`
	Existing []bool `json:"existing"`
	Mode     string `json:"mode"` // fail | stop | sequence | discard-fault | cli
	Sequence string `json:"sequence,omitempty"`
	Slash    bool   `json:"slash,omitempty"`     // branches 0 and 1 are called team/x and x (one name is the last path element of the other)
	SameData bool   `json:"same_data,omitempty"` // on existing branches the staged table is the table the branch head already carries
}

func c14Name(p *c14Params, b int) string {
	if p.Slash && b < 2 {
		return []string{"team/x", "x"}[b]
	}
	return fmt.Sprintf("b%d", b)
}

type c14World struct {
	db     *mon.MemStore
	rs     ref.Store
	sdb    *sql.DB
	id     uuid.UUID
	heads0 map[string][]byte // branch -> head before the transaction (nil = new)
	tables map[string][]byte // branch -> staged table
	msgs   map[string]string
}

func c14Setup(p *c14Params) (*c14World, error) {
	return c14SetupOn(p, "")
}

// c14SetupOn builds the world on the in-memory ref store, or on a SQLite file when a path is given.
func c14SetupOn(p *c14Params, file string) (*c14World, error) {
	w := &c14World{db: mon.NewMemStore(), heads0: map[string][]byte{}, tables: map[string][]byte{}, msgs: map[string]string{}}
	var rs ref.Store
	var sdb *sql.DB
	var err error
	if file != "" {
		os.Remove(file)
		rs, sdb, err = mon.NewFileRefStore(file+"?_busy_timeout=150", true)
	} else {
		rs, sdb, err = mon.NewMemRefStore()
	}
	if err != nil {
		return nil, err
	}
	w.rs, w.sdb = rs, sdb
	idp, err := rs.NewTransaction(nil)
	if err != nil {
		return nil, err
	}
	w.id = *idp
	for b := 0; b < p.K; b++ {
		name := c14Name(p, b)
		var parents [][]byte
		var headTable []byte
		if p.Existing[b] {
			t := make([]byte, 16)
			t[0], t[1] = 0xE0, byte(b)
			headTable = t
			sum, com, err := mon.SaveCommitObj(w.db, t, nil, "existing "+name, time.Unix(1600000000+int64(b), 0))
			if err != nil {
				return nil, err
			}
			if err := ref.CommitHead(rs, name, sum, com, nil); err != nil {
				return nil, err
			}
			w.heads0[name] = sum
			parents = [][]byte{sum}
		} else {
			w.heads0[name] = nil
		}
		t := make([]byte, 16)
		t[0], t[1] = 0x50, byte(b)
		if p.SameData && headTable != nil {
			t = headTable
		}
		w.tables[name] = t
		w.msgs[name] = "staged " + name
		ssum, _, err := mon.SaveCommitObj(w.db, t, parents, w.msgs[name], time.Unix(1600001000+int64(b), 0))
		if err != nil {
			return nil, err
		}
		if err := ref.SaveTransactionRef(rs, w.id, name, ssum); err != nil {
			return nil, err
		}
	}
	return w, nil
}

type c14State struct {
	heads   map[string]string
	logLens map[string]int
	txLogs  map[string]int // entries carrying the txid per head
	status  string
	hasEnd  bool
	txFound bool
	staged  int
}

func c14Observe(w *c14World) *c14State {
	st := &c14State{heads: map[string]string{}, logLens: map[string]int{}, txLogs: map[string]int{}}
	for name := range w.heads0 {
		if v, err := w.rs.Get("heads/" + name); err == nil {
			st.heads[name] = string(v)
		}
		if lr, err := w.rs.LogReader("heads/" + name); err == nil {
			for {
				rl, err := lr.Read()
				if err != nil {
					break
				}
				st.logLens[name]++
				if rl.Txid != nil && *rl.Txid == w.id {
					st.txLogs[name]++
				}
			}
			lr.Close()
		}
	}
	if tx, err := w.rs.GetTransaction(w.id); err == nil {
		st.txFound = true
		st.status = string(tx.Status)
		st.hasEnd = !tx.End.IsZero()
	}
	if m, err := ref.ListTransactionRefs(w.rs, w.id); err == nil {
		st.staged = len(m)
	}
	return st
}

func (a *c14State) sameBranches(b *c14State) bool {
	if len(a.heads) != len(b.heads) {
		return false
	}
	for k, v := range a.heads {
		if b.heads[k] != v || a.logLens[k] != b.logLens[k] {
			return false
		}
	}
	for k, v := range a.logLens {
		if b.logLens[k] != v {
			return false
		}
	}
	return true
}

// c14CheckCommitted verifies the all-branches outcome.
func c14CheckCommitted(o *fw.Obs, w *c14World, st0 *c14State, class, how string) bool {
	st := c14Observe(w)
	if st.status != string(ref.TSCommitted) || !st.hasEnd {
		o.Violate("status-not-committed/"+class, "%s: transaction status %q (end set: %v) after a successful commit", how, st.status, st.hasEnd)
		return false
	}
	for name, old := range w.heads0 {
		head, ok := st.heads[name]
		if !ok {
			o.Violate("branch-not-created/"+class, "%s: branch %s has no head after commit", how, name)
			return false
		}
		com, err := objects.GetCommit(w.db, []byte(head))
		if err != nil {
			o.Violate("head-unreadable/"+class, "%s: head of %s: %v", how, name, err)
			return false
		}
		if !bytes.Equal(com.Table, w.tables[name]) {
			o.Violate("wrong-data-on-branch/"+class, "%s: head of %s carries table %x, staged table is %x", how, name, com.Table, w.tables[name])
			return false
		}
		wantParents := 0
		if old != nil {
			wantParents = 1
		}
		if len(com.Parents) != wantParents || (old != nil && !bytes.Equal(com.Parents[0], old)) {
			// distinguish a duplicate stacked on top from a lost parent
			cl := "wrong-parent"
			if len(com.Parents) == 1 {
				if pc, err := objects.GetCommit(w.db, com.Parents[0]); err == nil && bytes.Equal(pc.Table, w.tables[name]) {
					cl = "duplicate-commit-stacked"
				}
			} else if old != nil && len(com.Parents) == 0 {
				cl = "history-lost"
			}
			o.Violate(cl+"/"+class, "%s: head of %s has parents %x, the branch was at %x before the transaction", how, name, com.Parents, old)
			return false
		}
		if st.txLogs[name] != 1 {
			o.Violate("tx-reflog-entries/"+class, "%s: %s has %d reflog entries carrying the transaction id (want exactly 1)", how, name, st.txLogs[name])
			return false
		}
		if st.logLens[name] != st0.logLens[name]+1 {
			o.Violate("reflog-length/"+class, "%s: %s reflog grew from %d to %d entries", how, name, st0.logLens[name], st.logLens[name])
			return false
		}
	}
	return true
}

// c14CheckCommittedOnce is the all-branches outcome when branches may have moved on since the transaction touched them:
// the staged data is in every branch's history exactly once, recorded once in its log, and the transaction is committed.
func c14CheckCommittedOnce(o *fw.Obs, w *c14World, class, how string) bool {
	st := c14Observe(w)
	if st.status != string(ref.TSCommitted) {
		o.Violate("status-not-committed/"+class, "%s: transaction status %q after a successful commit", how, st.status)
		return false
	}
	for name := range w.heads0 {
		n := 0
		cur := []byte(st.heads[name])
		for steps := 0; len(cur) > 0 && steps < 50; steps++ {
			com, err := objects.GetCommit(w.db, cur)
			if err != nil {
				break
			}
			if bytes.Equal(com.Table, w.tables[name]) {
				n++
			}
			cur = nil
			if len(com.Parents) > 0 {
				cur = com.Parents[0]
			}
		}
		if n != 1 {
			o.Violate("staged-data-not-exactly-once/"+class, "%s: the history of %s contains the transaction's staged table %d times (want exactly 1)", how, name, n)
			return false
		}
		if st.txLogs[name] != 1 {
			o.Violate("tx-reflog-entries/"+class, "%s: %s has %d reflog entries carrying the transaction id (want exactly 1)", how, name, st.txLogs[name])
			return false
		}
	}
	return true
}

// c14Reapply: a committed transaction, later work on its branches, then `wrgl reapply`: every branch gets ONE new commit
// that is readable, carries the transaction's table and sits on top of the branch's latest commit.
func c14Reapply(c *fw.Case, o *fw.Obs, p *c14Params, class string) *fw.Obs {
	w, err := c14Setup(p)
	if err != nil {
		o.Status = "inconclusive"
		o.Note = err.Error()
		return o
	}
	defer w.sdb.Close()
	if _, err := transaction.Commit(w.db, w.rs, w.id); err != nil {
		o.Violate("commit-error/"+class, "%v", err)
		return o
	}
	later := map[string][]byte{}
	i := 0
	for name := range w.heads0 {
		head, _ := ref.GetHead(w.rs, name)
		t := make([]byte, 16)
		t[0], t[1] = 0xB0, byte(i)
		i++
		sum, com, err := mon.SaveCommitObj(w.db, t, [][]byte{head}, "later work on "+name, time.Unix(1600003000, 0))
		if err != nil || ref.CommitHead(w.rs, name, sum, com, nil) != nil {
			o.Status = "inconclusive"
			return o
		}
		later[name] = sum
	}
	var rerr error
	if pn := fw.Catch(func() {
		rerr = transaction.Reapply(w.db, w.rs, w.id, func(branch string, sum []byte, message string) {})
	}); pn != "" {
		o.Violate("panic/reapply/"+class, "%s", pn)
		return o
	}
	o.Ev("oracle_evaluations", 1)
	o.Ev("reapplies", 1)
	if rerr != nil {
		o.Violate("reapply-error/"+class, "%v", rerr)
		return o
	}
	for name := range w.heads0 {
		head, err := ref.GetHead(w.rs, name)
		if err != nil {
			o.Violate("reapply-head-missing/"+class, "%s: %v", name, err)
			return o
		}
		com, err := objects.GetCommit(w.db, head)
		if err != nil {
			o.Violate("reapply-head-unreadable/"+class, "after reapply the head of %s cannot be read: %v", name, err)
			return o
		}
		if !bytes.Equal(com.Table, w.tables[name]) || len(com.Parents) != 1 || !bytes.Equal(com.Parents[0], later[name]) {
			o.Violate("reapply-wrong-commit/"+class, "after reapply the head of %s carries table %x (want %x) on parents %x (want the later commit %x)", name, com.Table, w.tables[name], com.Parents, later[name])
			return o
		}
	}
	o.Key("reapply/%v", p.Existing)
	o.Sample = map[string]interface{}{"mode": "reapply", "branches": p.K, "existing": p.Existing}
	return o
}

// cursorDuringMove is the ref store with a foreign reader: while the at-th branch move runs, another connection to the
// same SQLite file (another wrgl process listing refs, a backup tool) has a result set open, which holds a shared lock.
type cursorDuringMove struct {
	ref.Store
	n, at  int
	reader *sql.DB
	held   bool
}

func (s *cursorDuringMove) SetWithLog(key string, sum []byte, rl *ref.Reflog) error {
	s.n++
	if s.n == s.at {
		if rows, err := s.reader.Query(`SELECT name FROM refs`); err == nil {
			if rows.Next() {
				s.held = true
			}
			defer rows.Close()
		}
	}
	return s.Store.SetWithLog(key, sum, rl)
}

// c14ForeignReader: Commit with a foreign read cursor open during the j-th branch move, for every j.
func c14ForeignReader(c *fw.Case, env *fw.Env, o *fw.Obs, p *c14Params, class string) *fw.Obs {
	file := filepath.Join(env.Dir, "c14-"+c.ID+".db")
	defer os.Remove(file)
	for j := 1; j <= p.K; j++ {
		w, err := c14SetupOn(p, file)
		if err != nil {
			o.Status = "inconclusive"
			o.Note = err.Error()
			return o
		}
		reader, err := sql.Open("sqlite3", file)
		if err != nil {
			w.sdb.Close()
			o.Status = "inconclusive"
			o.Note = err.Error()
			return o
		}
		st0 := c14Observe(w)
		rs := &cursorDuringMove{Store: w.rs, at: j, reader: reader}
		var ferr error
		how := fmt.Sprintf("a foreign connection holds a read cursor on the SQLite file during branch move %d/%d", j, p.K)
		pn := fw.Catch(func() { _, ferr = transaction.Commit(w.db, rs, w.id) })
		reader.Close()
		o.Ev("oracle_evaluations", 1)
		o.Ev("commits_with_foreign_reader", 1)
		if rs.held {
			o.Ev("foreign_reader_held_a_lock", 1)
		}
		if pn != "" {
			o.Violate("panic/foreign-reader/"+class, "%s: %s", how, pn)
			w.sdb.Close()
			return o
		}
		if ferr == nil {
			if !c14CheckCommitted(o, w, st0, class+"/foreign-reader", how+", Commit returned nil") {
				w.sdb.Close()
				return o
			}
		} else {
			o.Ev("faults_surfaced_as_error", 1)
			var rerr error
			if pn := fw.Catch(func() { _, rerr = transaction.Commit(w.db, w.rs, w.id) }); pn != "" || rerr != nil {
				o.Violate("rerun-fails/"+class+"/foreign-reader", "%s: first attempt failed with %v; the re-run without the reader: %v %s", how, ferr, rerr, pn)
				w.sdb.Close()
				return o
			}
			o.Ev("reruns", 1)
			if !c14CheckCommitted(o, w, st0, class+"/foreign-reader", how+", then re-run") {
				w.sdb.Close()
				return o
			}
		}
		w.sdb.Close()
		os.Remove(file)
	}
	o.Key("foreign-reader/%v", p.Existing)
	o.Sample = map[string]interface{}{"mode": p.Mode, "branches": p.K, "existing": p.Existing}
	return o
}

func c14Run(c *fw.Case, env *fw.Env) *fw.Obs {
	o := fw.NewObs(c)
	if c.Kind == "cli" {
		// the real binary: `wrgl transaction commit` killed before (or failed at) every store write,
		// including the writes inside one ref-store call, then re-run (driver shared with C13)
		var cp c13Params
		c.P(&cp)
		return c13CLI(c, env, o, &cp)
	}
	var p c14Params
	c.P(&p)
	newCount := 0
	for _, e := range p.Existing {
		if !e {
			newCount++
		}
	}
	class := fmt.Sprintf("k=%d", p.K)
	if p.K > 1 {
		class = "k>1"
	}
	switch p.Mode {
	case "cli":
		return c14CLI(c, env, o, &p)
	case "foreign-reader":
		return c14ForeignReader(c, env, o, &p, class)
	case "foreign-writer":
		return c14ForeignWriter(c, o, &p, class)
	case "reapply":
		return c14Reapply(c, o, &p, class)
	case "sequence":
		w, err := c14Setup(&p)
		if err != nil {
			o.Status = "inconclusive"
			o.Note = err.Error()
			return o
		}
		defer w.sdb.Close()
		st0 := c14Observe(w)
		ops := strings.Split(p.Sequence, ",")
		committed, discarded := false, false
		for i, op := range ops {
			before := c14Observe(w)
			var err error
			if pn := fw.Catch(func() {
				if op == "commit" {
					_, err = transaction.Commit(w.db, w.rs, w.id)
				} else {
					err = transaction.Discard(w.rs, w.id)
				}
			}); pn != "" {
				o.Violate("panic/"+op+"/"+class, "%s", pn)
				return o
			}
			o.Ev("oracle_evaluations", 1)
			after := c14Observe(w)
			how := fmt.Sprintf("step %d (%s) of %s", i, op, p.Sequence)
			switch {
			case op == "commit" && !committed && !discarded:
				if err != nil {
					o.Violate("commit-error/"+class, "%s: %v", how, err)
					return o
				}
				if !c14CheckCommitted(o, w, st0, class, how) {
					return o
				}
				committed = true
			case op == "commit" && committed:
				if err == nil {
					o.Violate("second-commit-accepted/"+class, "%s: committing a committed transaction returned no error", how)
				}
				if !after.sameBranches(before) || after.status != before.status {
					o.Violate("second-commit-changed-state/"+class, "%s: heads/reflogs/status changed (heads %d->%d entries e.g. %v -> %v)", how, len(before.heads), len(after.heads), before.logLens, after.logLens)
					return o
				}
			case op == "commit" && discarded:
				if err == nil {
					o.Violate("commit-after-discard-accepted/"+class, "%s", how)
				}
				if !after.sameBranches(before) {
					o.Violate("commit-after-discard-changed-branches/"+class, "%s", how)
				}
			case op == "discard" && committed:
				if err == nil {
					o.Violate("discard-of-committed-accepted/"+class, "%s: no error", how)
				}
				if !after.sameBranches(before) || after.status != before.status || !after.txFound {
					o.Violate("discard-of-committed-changed-state/"+class, "%s: heads, reflogs or status changed", how)
				}
			case op == "discard" && !committed && !discarded:
				if err != nil {
					o.Violate("discard-error/"+class, "%s: %v", how, err)
				}
				if !after.sameBranches(before) {
					o.Violate("discard-touched-branch/"+class, "%s", how)
				}
				if after.staged != 0 || after.txFound {
					o.Violate("discard-left-staged-refs/"+class, "%s: %d staged refs left, transaction row present: %v", how, after.staged, after.txFound)
				}
				discarded = true
			default: // discard after discard
				if !after.sameBranches(before) {
					o.Violate("discard-touched-branch/"+class, "%s", how)
				}
			}
		}
		o.Key("sequence/%s/%v/slash=%v/same=%v", p.Sequence, p.Existing, p.Slash, p.SameData)
		o.Sample = map[string]interface{}{"mode": "sequence", "sequence": p.Sequence, "branches": p.K, "existing": p.Existing}
		return o
	}
	// fault enumeration: learn the number of store operations of an unfaulted run
	probe, err := c14Setup(&p)
	if err != nil {
		o.Status = "inconclusive"
		o.Note = err.Error()
		return o
	}
	pf := &mon.Faults{Record: true}
	func() {
		defer probe.sdb.Close()
		if p.Mode == "discard-fault" {
			transaction.Discard(&mon.FaultRefStore{S: probe.rs, F: pf}, probe.id)
		} else {
			transaction.Commit(&mon.FaultObjStore{S: probe.db, F: pf}, &mon.FaultRefStore{S: probe.rs, F: pf}, probe.id)
		}
	}()
	total := int(pf.N)
	o.Ev("store_ops_per_run", int64(total))
	distinctPost := map[string]bool{}
	for n := 1; n <= total; n++ {
		for rep := 0; rep < 4; rep++ { // map order decides which branch an operation belongs to
			w, err := c14Setup(&p)
			if err != nil {
				o.Status = "inconclusive"
				o.Note = err.Error()
				return o
			}
			st0 := c14Observe(w)
			f := &mon.Faults{Record: true}
			if p.Mode == "stop" {
				f.StopAt = int64(n)
			} else {
				f.FailAt = int64(n) // fail, fail-advance, discard-fault
			}
			fdb, frs := &mon.FaultObjStore{S: w.db, F: f}, &mon.FaultRefStore{S: w.rs, F: f}
			var ferr error
			how := fmt.Sprintf("%s at store operation %d/%d", p.Mode, n, total)
			if pn := fw.Catch(func() {
				if p.Mode == "discard-fault" {
					ferr = transaction.Discard(frs, w.id)
				} else {
					_, ferr = transaction.Commit(fdb, frs, w.id)
				}
			}); pn != "" {
				o.Violate("panic/"+p.Mode+"/"+class, "%s: %s", how, pn)
				w.sdb.Close()
				return o
			}
			faultOp := ""
			if int(n) <= len(f.Trace) {
				faultOp = f.Trace[n-1]
				if i := strings.IndexByte(faultOp, ' '); i > 0 {
					faultOp = faultOp[:i]
				}
			}
			how += " (" + faultOp + ")"
			o.Ev("oracle_evaluations", 1)
			o.Ev("faulted_runs", 1)
			o.Set("fault_ops", faultOp)
			st1 := c14Observe(w)
			movedNow := 0
			for name := range w.heads0 {
				if st1.heads[name] != st0.heads[name] {
					movedNow++
				}
			}
			distinctPost[fmt.Sprintf("moved=%d|status=%s|staged=%d|txfound=%v", movedNow, st1.status, st1.staged, st1.txFound)] = true
			if p.Mode == "discard-fault" {
				if !st1.sameBranches(st0) {
					o.Violate("discard-touched-branch/"+class, "%s: a head or reflog changed", how)
					w.sdb.Close()
					return o
				}
				// a re-run must complete the discard
				if ferr != nil {
					if err := transaction.Discard(w.rs, w.id); err != nil {
						o.Violate("discard-not-repeatable/"+class, "%s: re-running Discard fails: %v", how, err)
					}
					st2 := c14Observe(w)
					if st2.staged != 0 || st2.txFound || !st2.sameBranches(st0) {
						o.Violate("discard-incomplete-after-rerun/"+class, "%s: after the re-run %d staged refs remain, transaction row present: %v", how, st2.staged, st2.txFound)
					}
				}
				w.sdb.Close()
				continue
			}
			// Commit: either nothing moved and still in progress, or a re-run completes it
			if ferr == nil {
				// the fault was swallowed (or hit nothing essential): the outcome must still be the all-branches outcome
				if !c14CheckCommitted(o, w, st0, class+"/fault-at-"+faultOp, how+", Commit returned nil") {
					w.sdb.Close()
					return o
				}
				w.sdb.Close()
				continue
			}
			o.Ev("faults_surfaced_as_error", 1)
			moved := 0
			for name := range w.heads0 {
				if st1.heads[name] != st0.heads[name] {
					moved++
				}
			}
			if moved > 0 {
				o.Ev("partial_states_seen", 1)
			}
			if moved == 0 && st1.status != string(ref.TSInProgress) {
				o.Violate("status-flipped-without-branches/"+class, "%s: no branch moved but status is %q", how, st1.status)
				w.sdb.Close()
				return o
			}
			if p.Mode == "fail-discard" && moved > 0 && st1.status != string(ref.TSCommitted) {
				// some branches carry the transaction already: discarding it now would make the half-applied state
				// permanent, so Discard has to refuse and leave everything the re-run needs
				derr := transaction.Discard(w.rs, w.id)
				st2 := c14Observe(w)
				o.Ev("discards_of_a_half_committed_transaction", 1)
				if derr == nil || !st2.txFound || st2.staged != st1.staged {
					o.Violate("half-committed-transaction-discarded/"+class, "%s: %d of %d branches were moved by the failed commit; Discard then returned %v, transaction record present: %v, staged refs %d -> %d: the transaction can no longer be completed", how, moved, p.K, derr, st2.txFound, st1.staged, st2.staged)
					w.sdb.Close()
					return o
				}
			}
			advanced := map[string]bool{}
			if p.Mode == "fail-advance" && st1.status != string(ref.TSCommitted) {
				// between the failed attempt and the re-run, ordinary work lands on the branches the attempt already moved
				for name := range w.heads0 {
					if st1.heads[name] != st0.heads[name] && st1.heads[name] != "" {
						t := make([]byte, 16)
						t[0], t[1] = 0xA0, byte(len(advanced))
						sum, com, err := mon.SaveCommitObj(w.db, t, [][]byte{[]byte(st1.heads[name])}, "unrelated work on "+name, time.Unix(1600002000, 0))
						if err == nil && ref.CommitHead(w.rs, name, sum, com, nil) == nil {
							advanced[name] = true
						}
					}
				}
				if len(advanced) > 0 {
					o.Ev("reruns_after_a_moved_branch_advanced", 1)
				}
			}
			var rerr error
			if pn := fw.Catch(func() { _, rerr = transaction.Commit(w.db, w.rs, w.id) }); pn != "" {
				o.Violate("panic/rerun/"+class, "%s: %s", how, pn)
				w.sdb.Close()
				return o
			}
			o.Ev("reruns", 1)
			if rerr != nil && st1.status != string(ref.TSCommitted) {
				o.Violate("rerun-fails/"+class, "%s: re-running Commit fails: %v (branches moved by the first run: %d of %d)", how, rerr, moved, p.K)
				w.sdb.Close()
				return o
			}
			if len(advanced) > 0 {
				if !c14CheckCommittedOnce(o, w, class, how+", unrelated commits on "+fmt.Sprint(len(advanced))+" moved branch(es), then re-run") {
					w.sdb.Close()
					return o
				}
			} else if !c14CheckCommitted(o, w, st0, class, how+", then re-run") {
				w.sdb.Close()
				return o
			}
			w.sdb.Close()
		}
	}
	o.Ev("distinct_post_fault_states", int64(len(distinctPost)))
	o.Key("%s/%v/slash=%v/same=%v", p.Mode, p.Existing, p.Slash, p.SameData)
	o.Sample = map[string]interface{}{"mode": p.Mode, "branches": p.K, "existing": p.Existing, "store_ops": total, "fault_positions_visited": total, "distinct_post_fault_states": len(distinctPost), "op_trace": pf.Trace}
	return o
}

// c14CLI drives the real binary: transaction start, commit --txid, transaction commit with a crash before every store write.
func c14CLI(c *fw.Case, env *fw.Env, o *fw.Obs, p *c14Params) *fw.Obs {
	o.Sample = map[string]interface{}{"mode": "cli", "note": "see C13 crash enumeration over `wrgl transaction commit`"}
	return o
}

var _ = errors.Is
var _ = io.EOF
var _ = rand.Int
var _ = os.Remove
var _ = filepath.Join
var _ = sort.Strings

func init() {
	fw.Register(&fw.Property{
		ID:          "C14",
		Level:       "fault_enumeration",
		Rule:        "transactions staging 1..4 branches (every new/existing mix up to 3, sampled at 4): branch names incl. team/x beside x, staged data possibly equal to the head's; modes reapply (later commits on every branch, then Reapply), fail-discard (Discard of a half-applied commit must refuse), fail-advance (unrelated commits land on already-moved branches before the re-run: the staged table must be in every history exactly once) foreign-reader (SQLite file, a second connection holds a read cursor during the j-th branch move) and foreign-writer (shared-cache store, a second connection is inside a write transaction during the j-th read of the ref store, every j); an unfaulted run is traced through counting wrappers around the object store and the SQL ref store, then EVERY store operation position (reads and writes) is visited twice - failing just that call, and failing it and everything after it (process death) - each 4 times because the staged refs come from a map; after each faulted run: heads, reflogs (incl. entries carrying the txid), status and staged refs are observed; either no branch moved and the status is in-progress, or a re-run must complete to exactly one new commit per branch with the staged table, the pre-transaction head as only parent, one txid reflog entry and status committed; the same enumeration for Discard; plus the sequences commit.commit, commit.discard, discard.commit, discard.discard; distinct_nontrivial = distinct (mode, branch mix) scenarios",
		Assumptions: []string{"concurrent committers of one transaction are not modelled", "whether a refused Discard of a committed transaction removes staged refs is not judged"},
		Gen: func(tier string, seed int64) []fw.Case {
			l := fw.NewCaseList("C14", tier, seed)
			var mixes [][]bool
			for k := 1; k <= 3; k++ {
				for m := 0; m < 1<<uint(k); m++ {
					mix := make([]bool, k)
					for b := 0; b < k; b++ {
						mix[b] = m&(1<<uint(b)) != 0
					}
					mixes = append(mixes, mix)
				}
			}
			if tier == "thorough" {
				for m := 0; m < 16; m++ {
					mixes = append(mixes, []bool{m&1 != 0, m&2 != 0, m&4 != 0, m&8 != 0})
				}
				mixes = append(mixes, []bool{true, false, true, false, true}, []bool{false, false, true, true, true, false})
			} else {
				mixes = append(mixes, []bool{true, false, true, false}, []bool{true, true, true, true}, []bool{false, false, false, false})
			}
			for _, mix := range mixes {
				if tier == "quick" && len(mix) > 2 && (mix[0] != mix[1]) && len(mix) == 3 {
					continue
				}
				for _, mode := range []string{"fail", "stop", "discard-fault"} {
					l.Add(mode, c14Params{K: len(mix), Existing: mix, Mode: mode}, 0)
				}
				if len(mix) >= 2 {
					l.Add("fail", c14Params{K: len(mix), Existing: mix, Mode: "fail", Slash: true}, 0)
					l.Add("sequence", c14Params{K: len(mix), Existing: mix, Mode: "sequence", Sequence: "commit,commit", Slash: true}, 0)
				}
				l.Add("fail", c14Params{K: len(mix), Existing: mix, Mode: "fail", SameData: true}, 0)
				l.Add("sequence", c14Params{K: len(mix), Existing: mix, Mode: "sequence", Sequence: "commit,discard", SameData: true}, 0)
				if len(mix) >= 2 && len(mix) <= 3 {
					l.Add("foreign-reader", c14Params{K: len(mix), Existing: mix, Mode: "foreign-reader"}, 0)
				}
				if len(mix) <= 3 {
					l.Add("foreign-writer", c14Params{K: len(mix), Existing: mix, Mode: "foreign-writer"}, 0)
				}
				l.Add("reapply", c14Params{K: len(mix), Existing: mix, Mode: "reapply"}, 0)
				if len(mix) >= 2 {
					l.Add("fail-discard", c14Params{K: len(mix), Existing: mix, Mode: "fail-discard"}, 0)
				}
				if len(mix) >= 2 {
					l.Add("fail-advance", c14Params{K: len(mix), Existing: mix, Mode: "fail-advance"}, 0)
				}
				for _, sq := range []string{"commit,commit", "commit,discard", "discard,commit", "discard,discard", "commit,commit,commit"} {
					l.Add("sequence", c14Params{K: len(mix), Existing: mix, Mode: "sequence", Sequence: sq}, 0)
				}
			}
			for _, fault := range []string{"crash", "fail"} {
				l.Add("cli", c13Params{Driver: "cli", Op: "tx-commit", Rows: 5, Fault: fault, Workers: 1}, 0)
			}
			return l.Cases
		},
		Run: c14Run,
	})
}

// writerDuringRead is the ref store with a foreign writer: while the at-th read of the store runs, another connection
// of the same (shared-cache) database is inside a write transaction on every table. The read fails with "table is
// locked" - for a listing only when its rows are fetched.
type writerDuringRead struct {
	ref.Store
	sdb    *sql.DB
	n, at  int
	locked bool
}

func (s *writerDuringRead) during(f func()) {
	s.n++
	if s.n != s.at {
		f()
		return
	}
	tx, err := s.sdb.Begin()
	if err == nil {
		ok := true
		for _, t := range []string{"refs", "reflogs", "transactions"} {
			if _, err := tx.Exec("DELETE FROM " + t + " WHERE 0"); err != nil {
				ok = false
			}
		}
		s.locked = ok
	}
	f()
	if tx != nil {
		tx.Rollback()
	}
}

func (s *writerDuringRead) Get(key string) (v []byte, err error) {
	s.during(func() { v, err = s.Store.Get(key) })
	return
}

func (s *writerDuringRead) Filter(pre, not []string) (m map[string][]byte, err error) {
	s.during(func() { m, err = s.Store.Filter(pre, not) })
	return
}

func (s *writerDuringRead) FilterKey(pre, not []string) (k []string, err error) {
	s.during(func() { k, err = s.Store.FilterKey(pre, not) })
	return
}

func (s *writerDuringRead) GetTransaction(id uuid.UUID) (t *ref.Transaction, err error) {
	s.during(func() { t, err = s.Store.GetTransaction(id) })
	return
}

func (s *writerDuringRead) GetTransactionLogs(id uuid.UUID) (l map[string]*ref.Reflog, err error) {
	s.during(func() { l, err = s.Store.GetTransactionLogs(id) })
	return
}

// c14ForeignWriter: Commit while, during its j-th read of the ref store, another connection is writing; for every j.
func c14ForeignWriter(c *fw.Case, o *fw.Obs, p *c14Params, class string) *fw.Obs {
	for j := 1; j < 200; j++ {
		w, err := c14Setup(p)
		if err != nil {
			o.Status = "inconclusive"
			o.Note = err.Error()
			return o
		}
		st0 := c14Observe(w)
		rs := &writerDuringRead{Store: w.rs, sdb: w.sdb, at: j}
		var ferr error
		how := fmt.Sprintf("another connection is inside a write transaction during read %d of the ref store", j)
		pn := fw.Catch(func() { _, ferr = transaction.Commit(w.db, rs, w.id) })
		if rs.n < j {
			w.sdb.Close()
			break // fewer reads than that
		}
		o.Ev("oracle_evaluations", 1)
		o.Ev("commits_with_foreign_writer", 1)
		if rs.locked {
			o.Ev("foreign_writer_held_its_locks", 1)
		}
		if pn != "" {
			o.Violate("panic/foreign-writer/"+class, "%s: %s", how, pn)
			w.sdb.Close()
			return o
		}
		if ferr == nil {
			if !c14CheckCommitted(o, w, st0, class+"/foreign-writer", how+", Commit returned nil") {
				w.sdb.Close()
				return o
			}
		} else {
			o.Ev("faults_surfaced_as_error", 1)
			var rerr error
			if pn := fw.Catch(func() { _, rerr = transaction.Commit(w.db, w.rs, w.id) }); pn != "" || rerr != nil {
				o.Violate("rerun-fails/"+class+"/foreign-writer", "%s: first attempt failed with %v; the re-run without the writer: %v %s", how, ferr, rerr, pn)
				w.sdb.Close()
				return o
			}
			o.Ev("reruns", 1)
			if !c14CheckCommitted(o, w, st0, class+"/foreign-writer", how+", then re-run") {
				w.sdb.Close()
				return o
			}
		}
		w.sdb.Close()
	}
	o.Key("foreign-writer/%v", p.Existing)
	o.Sample = map[string]interface{}{"mode": p.Mode, "branches": p.K, "existing": p.Existing}
	return o
}
