package props

import (
	"bytes"
	"compress/gzip"
	"encoding/json"
	"fmt"
	"math/rand"
	"net/http"
	"net/http/httptest"

	"github.com/go-logr/logr"
	apiclient "github.com/wrgl/wrgl/pkg/api/client"
	"github.com/wrgl/wrgl/pkg/api/payload"
	"github.com/wrgl/wrgl/pkg/encoding/packfile"

	"verif/fw"
)

// c18HTTP: the answers of /upload-pack/ (negotiation JSON or a packfile), /objects/ and /refs/ as the real client reads
// them from a real HTTP connection, written by the server in one piece (Content-Length), byte by byte, in two pieces and
// in seeded random pieces (each piece flushed = its own chunk on the wire); the decoded answer must not depend on it.
func c18HTTP(c *fw.Case, o *fw.Obs, p *c18Params, rng *rand.Rand) *fw.Obs {
	nAcks := []int{0, 1, 3, 40, 200, 1000}[p.Size%6]
	var acks []string
	for i := 0; i < nAcks; i++ {
		acks = append(acks, fmt.Sprintf("%032x", rng.Uint64()))
	}
	jsonBody, _ := json.Marshal(map[string]interface{}{"acks": acks})
	refs := map[string]string{}
	for i := 0; i < nAcks; i++ {
		refs[fmt.Sprintf("heads/branch-%d", i)] = acks[i]
	}
	refsBody, _ := json.Marshal(map[string]interface{}{"refs": refs})
	packData, _ := c18Stream("packfile", 1+p.Size%7, rng)
	wantPack, werr := c18Decode("packfile", bytes.NewReader(packData))
	if werr != nil {
		o.Status = "inconclusive"
		o.Note = werr.Error()
		return o
	}
	type plan struct {
		name   string
		pieces func(n int) []int // sizes of the pieces; nil = one write with Content-Length
	}
	plans := []plan{
		{"whole", nil},
		{"one-byte", func(n int) []int { return nil }},
		{"two-pieces", func(n int) []int { return []int{n / 2} }},
		{"first-byte-alone", func(n int) []int { return []int{1} }},
	}
	for k := 0; k < 4; k++ {
		seed := rng.Int63()
		plans = append(plans, plan{fmt.Sprintf("random-%d", k), func(n int) []int {
			r := rand.New(rand.NewSource(seed))
			var ps []int
			for left := n; left > 0; {
				s := 1 + r.Intn(1+n/3)
				if s > left {
					s = left
				}
				ps = append(ps, s)
				left -= s
			}
			return ps
		}})
	}
	var cur plan
	var body []byte
	var ctype string
	// two more layers the bytes may pass through, each with its own idea of where a read ends: a gzip content encoding
	// (undone by the client's transport) and TLS records under HTTP/2 frames
	useGzip, useH2 := p.Size%2 == 1, p.Size%3 == 1
	srv := httptest.NewUnstartedServer(http.HandlerFunc(func(w http.ResponseWriter, r *http.Request) {
		w.Header().Set("Content-Type", ctype)
		body := body
		if useGzip && r.Header.Get("Accept-Encoding") == "gzip" {
			var zb bytes.Buffer
			zw := gzip.NewWriter(&zb)
			zw.Write(body)
			zw.Close()
			body = zb.Bytes()
			w.Header().Set("Content-Encoding", "gzip")
		}
		if cur.pieces == nil {
			w.Header().Set("Content-Length", fmt.Sprint(len(body)))
			w.WriteHeader(200)
			w.Write(body)
			return
		}
		w.WriteHeader(200)
		fl, _ := w.(http.Flusher)
		sizes := cur.pieces(len(body))
		if cur.name == "one-byte" {
			sizes = make([]int, len(body))
			for i := range sizes {
				sizes[i] = 1
			}
		}
		off := 0
		for _, s := range sizes {
			if off+s > len(body) {
				s = len(body) - off
			}
			w.Write(body[off : off+s])
			off += s
			if fl != nil {
				fl.Flush()
			}
		}
		if off < len(body) {
			w.Write(body[off:])
		}
	}))
	if useH2 {
		srv.EnableHTTP2 = true
		srv.StartTLS()
		o.Ev("http_cases_over_h2_tls", 1)
	} else {
		srv.Start()
	}
	if useGzip {
		o.Ev("http_cases_with_gzip_content_encoding", 1)
	}
	defer srv.Close()
	cl, err := apiclient.NewClient(srv.URL, logr.Discard(), apiclient.WithTransport(srv.Client().Transport))
	if err != nil {
		o.Status = "inconclusive"
		o.Note = err.Error()
		return o
	}
	for _, pl := range plans {
		cur = pl
		fam := chunkerFamily(pl.name)
		// negotiation answer
		body, ctype = jsonBody, "application/json"
		upr, _, err := cl.PostUploadPack(&payload.UploadPackRequest{})
		o.Ev("oracle_evaluations", 1)
		o.Ev("pairs_http", 1)
		o.Set("chunkers", "http-"+fam)
		if err != nil {
			o.Violate("spurious-error/http-upload-pack-json/"+fam, "%d-byte negotiation answer (%d acks) written as %s: %v", len(body), nAcks, pl.name, err)
		} else if upr == nil || len(upr.ACKs) != nAcks || (nAcks > 0 && upr.ACKs[nAcks-1].String() != acks[nAcks-1]) {
			o.Violate("decoded-value-differs/http-upload-pack-json/"+fam, "%d acks sent as %s, the client decoded %d", nAcks, pl.name, len(upr.ACKs))
		}
		// packfile answer
		body, ctype = packData, "application/x-wrgl-packfile"
		_, pr, err := cl.PostUploadPack(&payload.UploadPackRequest{})
		o.Ev("oracle_evaluations", 1)
		got := ""
		if err == nil && pr != nil {
			got, err = c18DecodePackReader(pr)
		}
		if err != nil {
			o.Violate("spurious-error/http-upload-pack-packfile/"+fam, "%d-byte packfile written as %s: %v", len(body), pl.name, err)
		} else if got != wantPack {
			o.Violate("decoded-value-differs/http-upload-pack-packfile/"+fam, "%d-byte packfile written as %s decodes differently", len(body), pl.name)
		}
		// /objects/
		pr, err = cl.GetObjects([][]byte{bytes.Repeat([]byte{1}, 16)})
		o.Ev("oracle_evaluations", 1)
		got = ""
		if err == nil && pr != nil {
			got, err = c18DecodePackReader(pr)
		}
		if err != nil {
			o.Violate("spurious-error/http-objects/"+fam, "%d-byte packfile written as %s: %v", len(body), pl.name, err)
		} else if got != wantPack {
			o.Violate("decoded-value-differs/http-objects/"+fam, "%d-byte packfile written as %s decodes differently", len(body), pl.name)
		}
		// /refs/
		body, ctype = refsBody, "application/json"
		m, err := cl.GetRefs(nil, nil)
		o.Ev("oracle_evaluations", 1)
		if err != nil {
			o.Violate("spurious-error/http-refs/"+fam, "%d-byte refs answer written as %s: %v", len(body), pl.name, err)
		} else if len(m) != len(refs) {
			o.Violate("decoded-value-differs/http-refs/"+fam, "%d refs sent as %s, the client decoded %d", len(refs), pl.name, len(m))
		}
		if len(o.Viols) > 5 {
			break
		}
	}
	o.Key("http/%d/%d", nAcks, len(packData))
	o.Sample = map[string]interface{}{"stream": "http", "acks": nAcks, "json_bytes": len(jsonBody), "packfile_bytes": len(packData), "write_patterns": len(plans)}
	return o
}

func c18DecodePackReader(pr *packfile.PackfileReader) (string, error) {
	var sb bytes.Buffer
	for {
		ot, b, err := pr.ReadObject()
		if ot != 0 || len(b) > 0 {
			fmt.Fprintf(&sb, "%d:%x;", ot, meowSum(b))
		}
		if err != nil {
			pr.Close()
			if err.Error() == "EOF" {
				return sb.String(), nil
			}
			return sb.String(), err
		}
	}
}
