// Package model holds the executable reference models.
package model

import (
	"fmt"
	"sort"
	"strings"
)

// Tbl is a table viewed as key -> {column name -> value}.
type Tbl struct {
	Cols []string
	PK   []string // key column names (empty: keyless, the whole row is the key)
	Rows [][]string
}

func (t *Tbl) colIdx() map[string]int {
	m := map[string]int{}
	for i, c := range t.Cols {
		m[c] = i
	}
	return m
}

// KeyOf returns a canonical string for the key of a row.
func (t *Tbl) KeyOf(row []string) string {
	idx := t.colIdx()
	var sb strings.Builder
	if len(t.PK) == 0 {
		// keyless: all cells by column name order as given (columns are equal in all versions)
		for _, c := range row {
			fmt.Fprintf(&sb, "%d:%s", len(c), c)
		}
		return sb.String()
	}
	for _, k := range t.PK {
		c := row[idx[k]]
		fmt.Fprintf(&sb, "%d:%s", len(c), c)
	}
	return sb.String()
}

func (t *Tbl) byKey() map[string]map[string]string {
	m := map[string]map[string]string{}
	for _, r := range t.Rows {
		cells := map[string]string{}
		for i, c := range t.Cols {
			cells[c] = r[i]
		}
		m[t.KeyOf(r)] = cells
	}
	return m
}

// MergeExpect is the reference outcome of a three-way merge, with explicit don't-cares.
type MergeExpect struct {
	Cols map[string]bool // result column set
	// per key:
	Present  map[string]map[string]string // expected row (column -> value) when not in conflict
	Absent   map[string]bool              // expected absent
	Either   map[string]bool              // presence is a don't-care (statement silent)
	MustConf map[string][]string          // key must be reported as conflict (with these columns unresolved, if any)
	MayConf  map[string]bool              // a reported conflict is acceptable although not required
	// FreeCells[key][col]: the value of this cell is a don't-care
	FreeCells map[string]map[string]bool
	KeyCells  map[string]map[string]string // key -> key column values (for messages)
}

func set(sl []string) map[string]bool {
	m := map[string]bool{}
	for _, s := range sl {
		m[s] = true
	}
	return m
}

// Merge3 computes the expectation for merging branches that share base.
func Merge3(base *Tbl, branches []*Tbl) *MergeExpect {
	e := &MergeExpect{Cols: map[string]bool{}, Present: map[string]map[string]string{}, Absent: map[string]bool{}, Either: map[string]bool{},
		MustConf: map[string][]string{}, MayConf: map[string]bool{}, FreeCells: map[string]map[string]bool{}, KeyCells: map[string]map[string]string{}}
	baseCols := set(base.Cols)
	removedBySome := map[string]bool{}
	addedBy := map[string][]int{}
	brCols := make([]map[string]bool, len(branches))
	for i, b := range branches {
		brCols[i] = set(b.Cols)
		for c := range baseCols {
			if !brCols[i][c] {
				removedBySome[c] = true
			}
		}
		for _, c := range b.Cols {
			if !baseCols[c] {
				addedBy[c] = append(addedBy[c], i)
			}
		}
	}
	for c := range baseCols {
		if !removedBySome[c] {
			e.Cols[c] = true
		}
	}
	for c := range addedBy {
		e.Cols[c] = true
	}
	bk := base.byKey()
	brk := make([]map[string]map[string]string, len(branches))
	keys := map[string]bool{}
	for k := range bk {
		keys[k] = true
	}
	for i, b := range branches {
		brk[i] = b.byKey()
		for k := range brk[i] {
			keys[k] = true
		}
	}
	isKeyCol := set(base.PK)
	for k := range keys {
		brow, inBase := bk[k]
		var present []int
		var removedBy []int
		for i := range branches {
			if _, ok := brk[i][k]; ok {
				present = append(present, i)
			} else if inBase {
				removedBy = append(removedBy, i)
			}
		}
		// key cells for messages
		for _, src := range append([]map[string]string{brow}, func() []map[string]string {
			var r []map[string]string
			for _, i := range present {
				r = append(r, brk[i][k])
			}
			return r
		}()...) {
			if src != nil {
				e.KeyCells[k] = src
				break
			}
		}
		e.FreeCells[k] = map[string]bool{}
		if inBase && len(present) == 0 {
			e.Absent[k] = true
			continue
		}
		if inBase && len(removedBy) > 0 {
			// removed by some; others: edited a common cell?
			edited := false
			colOnly := false
			for _, i := range present {
				for c, v := range brk[i][k] {
					if baseCols[c] && v != brow[c] {
						edited = true
					}
				}
				// a branch whose column set differs from the base changed the row "through columns" only
				if strings.Join(branches[i].Cols, "\x00") != strings.Join(base.Cols, "\x00") {
					colOnly = true
				}
				for c := range baseCols {
					if !brCols[i][c] {
						colOnly = true
					}
				}
			}
			switch {
			case edited:
				e.MustConf[k] = nil
			case colOnly:
				e.Either[k] = true
				e.MayConf[k] = true
			default:
				e.Absent[k] = true
			}
			continue
		}
		// present in all branches (or added by some branches)
		row := map[string]string{}
		var confCols []string
		for c := range e.Cols {
			var b *string
			if inBase && baseCols[c] {
				v := brow[c]
				b = &v
			}
			distinct := map[string]bool{}
			for _, i := range present {
				if !brCols[i][c] {
					continue
				}
				v := brk[i][k][c]
				if b != nil && v == *b {
					continue
				}
				distinct[v] = true
			}
			switch len(distinct) {
			case 0:
				if b != nil {
					row[c] = *b
				} else {
					row[c] = ""
				}
			case 1:
				for v := range distinct {
					row[c] = v
				}
			default:
				confCols = append(confCols, c)
			}
			if !inBase && len(present) < len(branches) && len(addedBy[c]) > 0 {
				// a row added by only some branches, in a column added by (other) branches: no rule
				e.FreeCells[k][c] = true
			}
		}
		// edits in a column that another branch removed: statement gives no rule
		for c := range removedBySome {
			if isKeyCol[c] {
				continue
			}
			for _, i := range present {
				if brCols[i][c] && inBase && brk[i][k][c] != brow[c] {
					e.MayConf[k] = true
				}
				if brCols[i][c] && !inBase && brk[i][k][c] != "" {
					e.MayConf[k] = true
				}
			}
		}
		if !inBase && len(present) > 1 {
			// the same new key added by several branches with differing non-key content is a conflict;
			// handled by confCols above. Identical additions resolve.
		}
		if len(confCols) > 0 {
			sort.Strings(confCols)
			e.MustConf[k] = confCols
		} else {
			e.Present[k] = row
		}
	}
	return e
}
