// Package refserver is a small reference implementation of the wrgl HTTP sync
// protocol, assembled from wrgl's own ClosedSetsFinder, ObjectSender and
// ObjectReceiver. It enforces no fast-forward policy of its own, so that the
// client-side gate is what the checks observe. It logs every request.
package refserver

import (
	"bytes"
	"compress/gzip"
	"encoding/hex"
	"encoding/json"
	"encoding/pem"
	"fmt"
	"io"
	"net/http"
	"net/http/httptest"
	"os"
	"path/filepath"
	"strings"
	"sync"

	"github.com/go-logr/logr"
	"github.com/wrgl/wrgl/pkg/api/payload"
	apiutils "github.com/wrgl/wrgl/pkg/api/utils"
	"github.com/wrgl/wrgl/pkg/encoding/packfile"
	"github.com/wrgl/wrgl/pkg/objects"
	"github.com/wrgl/wrgl/pkg/ref"
)

const (
	ctJSON     = "application/json"
	ctPackfile = "application/x-wrgl-packfile"
)

type ReqLog struct {
	Method, Path string
	Kind         string // refs | upload-json | upload-pack-out | receive-json | receive-pack-in | objects
	Wants        int
	Haves        int
	Done         bool
	Objects      int
	Status       int
	Note         string
}

type uploadSession struct {
	finder   *apiutils.ClosedSetsFinder
	sender   *apiutils.ObjectSender
	tables   map[string]struct{}
	offer    [][]byte // tables still to offer
	offering bool
	state    string // negotiate | tables | sending
}

type receiveSession struct {
	updates  map[string]*payload.Update
	receiver *apiutils.ObjectReceiver
}

type Server struct {
	DB      objects.Store
	RS      ref.Store
	MaxPack uint64
	// OneBytePerFlush makes packfile and JSON responses trickle out one byte per chunk (C18 over real HTTP).
	OneBytePerFlush bool
	// AbortPackAt > 0: the AbortPackAt-th packfile exchanged from now on (a packfile answer of upload-pack, or a packfile
	// request of receive-pack) is cut by the server - the answer stops half way through its body and the stream is reset
	// (HTTP/2: RST_STREAM INTERNAL_ERROR, HTTP/1.1: the connection is dropped). One shot. Aborted counts what fired.
	AbortPackAt int
	Aborted     int
	packsSeen   int

	mu       sync.Mutex
	Log      []ReqLog
	Problems []string // self-checks: malformed exchanges, sessions that never finished
	uploads  map[string]*uploadSession
	receives map[string]*receiveSession
	nextID   int
	HTTP     *httptest.Server
	mux      *http.ServeMux
}

func New(db objects.Store, rs ref.Store, maxPack uint64) *Server {
	s := NewCore(db, rs, maxPack)
	s.HTTP = httptest.NewServer(s.mux)
	return s
}

// NewCore is a repository without a listener of its own: Mount it under a path of another server.
func NewCore(db objects.Store, rs ref.Store, maxPack uint64) *Server {
	s := &Server{DB: db, RS: rs, MaxPack: maxPack, uploads: map[string]*uploadSession{}, receives: map[string]*receiveSession{}}
	s.mux = http.NewServeMux()
	s.mux.HandleFunc("/refs/", s.handleRefs)
	s.mux.HandleFunc("/upload-pack/", s.handleUploadPack)
	s.mux.HandleFunc("/receive-pack/", s.handleReceivePack)
	s.mux.HandleFunc("/objects/", s.handleObjects)
	return s
}

// Mount serves a second repository under prefix (e.g. "/b") of this server's address: two remotes on one host.
func (s *Server) Mount(prefix string, sub *Server) {
	sub.nextID = 1000000 // session ids travel in cookies scoped to the host: keep the two repositories' ids apart
	s.mux.Handle(prefix+"/", http.StripPrefix(prefix, sub.mux))
}

// NewTLS is New over TLS with HTTP/2 enabled. The first call makes this process trust the test server's certificate
// (SSL_CERT_FILE, read once by crypto/x509 when the first certificate is verified), so that wrgl's own client - which
// the harness cannot hand a transport to when it drives the command line - negotiates h2 with it.
func NewTLS(db objects.Store, rs ref.Store, maxPack uint64) *Server {
	s := NewCore(db, rs, maxPack)
	s.HTTP = httptest.NewUnstartedServer(s.mux)
	s.HTTP.EnableHTTP2 = true
	s.HTTP.StartTLS()
	trustOnce.Do(func() {
		f := filepath.Join(os.TempDir(), fmt.Sprintf("verif-refserver-cert-%d.pem", os.Getpid()))
		os.WriteFile(f, pem.EncodeToMemory(&pem.Block{Type: "CERTIFICATE", Bytes: s.HTTP.Certificate().Raw}), 0o644)
		os.Setenv("SSL_CERT_FILE", f)
	})
	return s
}

var trustOnce sync.Once

func (s *Server) URL() string { return s.HTTP.URL }

// Handler exposes the protocol handlers of a repository made with NewCore (no listener of its own).
func (s *Server) Handler() http.Handler { return s.mux }

// abortNow says whether the packfile being exchanged is the one to cut (and counts it).
func (s *Server) abortNow() bool {
	s.packsSeen++
	if s.AbortPackAt > 0 && s.packsSeen == s.AbortPackAt {
		s.AbortPackAt = 0
		s.Aborted++
		return true
	}
	return false
}

// Arm makes the n-th packfile from now on the one that is cut.
func (s *Server) Arm(n int) {
	s.mu.Lock()
	defer s.mu.Unlock()
	s.packsSeen, s.AbortPackAt = 0, n
}

func (s *Server) Close() {
	if s.HTTP != nil {
		s.HTTP.Close()
	}
	s.mu.Lock()
	defer s.mu.Unlock()
	for id, u := range s.uploads {
		s.Problems = append(s.Problems, fmt.Sprintf("upload-pack session %s left in state %s", id, u.state))
	}
	for id := range s.receives {
		s.Problems = append(s.Problems, fmt.Sprintf("receive-pack session %s never finished", id))
	}
}

func (s *Server) ResetLog() {
	s.mu.Lock()
	defer s.mu.Unlock()
	s.Log = nil
}

func (s *Server) logReq(l ReqLog) {
	s.Log = append(s.Log, l)
}

func (s *Server) fail(w http.ResponseWriter, l *ReqLog, code int, msg string) {
	l.Status = code
	l.Note = msg
	s.logReq(*l)
	http.Error(w, msg, code)
}

func (s *Server) writeJSON(w http.ResponseWriter, v interface{}) {
	b, _ := json.Marshal(v)
	w.Header().Set("Content-Type", ctJSON)
	w.WriteHeader(http.StatusOK)
	if s.OneBytePerFlush {
		// the answer trickles out: every byte its own chunk on the wire
		fl, _ := w.(http.Flusher)
		for i := range b {
			w.Write(b[i : i+1])
			if fl != nil {
				fl.Flush()
			}
		}
		return
	}
	w.Write(b)
}

func (s *Server) handleRefs(w http.ResponseWriter, r *http.Request) {
	s.mu.Lock()
	defer s.mu.Unlock()
	l := ReqLog{Method: r.Method, Path: r.URL.Path, Kind: "refs", Status: 200}
	q := r.URL.Query()
	m, err := s.RS.Filter(q["prefix"], q["notprefix"])
	if err != nil {
		s.fail(w, &l, 500, err.Error())
		return
	}
	resp := &payload.GetRefsResponse{Refs: map[string]*payload.Hex{}}
	for k, v := range m {
		resp.Refs[k] = payload.BytesToHex(v)
	}
	s.logReq(l)
	s.writeJSON(w, resp)
}

func (s *Server) sessionID(r *http.Request, name string) string {
	if c, err := r.Cookie(name); err == nil {
		return c.Value
	}
	return ""
}

func (s *Server) sendPackfile(w http.ResponseWriter, l *ReqLog, id string, u *uploadSession) {
	var buf bytes.Buffer
	done, info, err := u.sender.WriteObjects(&buf, nil)
	if err != nil {
		s.fail(w, l, 500, "WriteObjects: "+err.Error())
		delete(s.uploads, id)
		return
	}
	l.Kind = "upload-pack-out"
	l.Objects = len(info.Objects)
	l.Status = 200
	s.logReq(*l)
	if done {
		delete(s.uploads, id)
	}
	w.Header().Set("Content-Type", ctPackfile)
	w.WriteHeader(http.StatusOK)
	if s.abortNow() {
		// the answer breaks off half way; the session is dead as far as the server is concerned
		delete(s.uploads, id)
		w.Write(buf.Bytes()[:buf.Len()/2])
		if fl, ok := w.(http.Flusher); ok {
			fl.Flush()
		}
		s.Log[len(s.Log)-1].Note = "aborted mid-body"
		panic(http.ErrAbortHandler)
	}
	if s.OneBytePerFlush {
		fl, _ := w.(http.Flusher)
		for _, b := range buf.Bytes() {
			w.Write([]byte{b})
			if fl != nil {
				fl.Flush()
			}
		}
		return
	}
	w.Write(buf.Bytes())
}

func (s *Server) startSending(w http.ResponseWriter, l *ReqLog, id string, u *uploadSession) {
	commits, err := u.finder.CommitsToSend()
	if err != nil {
		s.fail(w, l, 500, err.Error())
		delete(s.uploads, id)
		return
	}
	u.sender, err = apiutils.NewObjectSender(s.DB, commits, u.tables, u.finder.CommonCommmits(), s.MaxPack)
	if err != nil {
		s.fail(w, l, 500, err.Error())
		delete(s.uploads, id)
		return
	}
	u.state = "sending"
	s.sendPackfile(w, l, id, u)
}

func (s *Server) offerTables(w http.ResponseWriter, l *ReqLog, id string, u *uploadSession) {
	if len(u.offer) == 0 {
		s.startSending(w, l, id, u)
		return
	}
	n := len(u.offer)
	if n > 256 {
		n = 256
	}
	batch := u.offer[:n]
	u.offer = u.offer[n:]
	u.state = "tables"
	l.Status = 200
	l.Note = fmt.Sprintf("offered %d tables", n)
	s.logReq(*l)
	s.writeJSON(w, &payload.UploadPackResponse{TableHaves: payload.BytesSliceToHexSlice(batch)})
}

func (s *Server) handleUploadPack(w http.ResponseWriter, r *http.Request) {
	s.mu.Lock()
	defer s.mu.Unlock()
	l := ReqLog{Method: r.Method, Path: r.URL.Path, Kind: "upload-json"}
	body, _ := io.ReadAll(r.Body)
	req := &payload.UploadPackRequest{}
	if err := json.Unmarshal(body, req); err != nil {
		s.fail(w, &l, 400, "bad json: "+err.Error())
		return
	}
	l.Wants, l.Haves, l.Done = len(req.Wants), len(req.Haves), req.Done
	id := s.sessionID(r, "upload-pack-session-id")
	u := s.uploads[id]
	if u == nil {
		if len(req.Wants) == 0 {
			s.fail(w, &l, 400, "empty wants list")
			return
		}
		s.nextID++
		id = fmt.Sprintf("up%d", s.nextID)
		u = &uploadSession{finder: apiutils.NewClosedSetsFinder(s.DB, s.RS, req.Depth), state: "negotiate"}
		s.uploads[id] = u
		http.SetCookie(w, &http.Cookie{Name: "upload-pack-session-id", Value: id, Path: "/"})
	} else if len(req.Wants) > 0 {
		s.Problems = append(s.Problems, "wants sent inside a live upload-pack session")
	}
	switch u.state {
	case "negotiate":
		acks, err := u.finder.Process(payload.HexSliceToBytesSlice(req.Wants), payload.HexSliceToBytesSlice(req.Haves), req.Done)
		if err != nil {
			delete(s.uploads, id)
			s.fail(w, &l, 400, err.Error())
			return
		}
		if len(u.finder.Wants) > 0 && !req.Done {
			l.Status = 200
			l.Note = fmt.Sprintf("acks %d", len(acks))
			s.logReq(l)
			s.writeJSON(w, &payload.UploadPackResponse{ACKs: payload.BytesSliceToHexSlice(acks)})
			return
		}
		u.tables, err = u.finder.TablesToSend()
		if err != nil {
			delete(s.uploads, id)
			s.fail(w, &l, 500, err.Error())
			return
		}
		for t := range u.tables {
			u.offer = append(u.offer, []byte(t))
		}
		s.offerTables(w, &l, id, u)
	case "tables":
		for _, t := range req.TableACKs {
			delete(u.tables, string((*t)[:]))
		}
		s.offerTables(w, &l, id, u)
	case "sending":
		if len(req.Wants)+len(req.Haves)+len(req.TableACKs) > 0 {
			s.Problems = append(s.Problems, "non-empty request while sending packfiles")
		}
		s.sendPackfile(w, &l, id, u)
	}
}

func (s *Server) applyUpdates(updates map[string]*payload.Update) {
	for name, u := range updates {
		if u.ErrMsg != "" {
			continue
		}
		var err error
		if u.Sum == nil {
			err = ref.DeleteRef(s.RS, name)
		} else {
			sum := (*u.Sum)[:]
			if !objects.CommitExist(s.DB, sum) {
				u.ErrMsg = "commit was not received"
				continue
			}
			err = ref.SaveRef(s.RS, name, sum, "refserver", "refserver@example.com", "receive-pack", "update ref", nil)
		}
		if err != nil {
			u.ErrMsg = err.Error()
		}
	}
}

func (s *Server) handleReceivePack(w http.ResponseWriter, r *http.Request) {
	s.mu.Lock()
	defer s.mu.Unlock()
	l := ReqLog{Method: r.Method, Path: r.URL.Path, Kind: "receive-json"}
	id := s.sessionID(r, "receive-pack-session-id")
	ses := s.receives[id]
	if r.Header.Get("Content-Type") == ctPackfile {
		l.Kind = "receive-pack-in"
		if ses == nil || ses.receiver == nil {
			s.fail(w, &l, 400, "packfile without a negotiated session")
			return
		}
		abort := s.abortNow()
		if abort && s.Aborted%2 == 1 {
			// the request is dropped before anything of it was looked at
			delete(s.receives, id)
			l.Note = "aborted before processing"
			s.logReq(l)
			panic(http.ErrAbortHandler)
		}
		var body io.Reader = r.Body
		if r.Header.Get("Content-Encoding") == "gzip" {
			gz, err := gzip.NewReader(r.Body)
			if err != nil {
				s.fail(w, &l, 400, "bad gzip: "+err.Error())
				return
			}
			defer gz.Close()
			body = gz
		}
		pr, err := packfile.NewPackfileReader(io.NopCloser(body))
		if err != nil {
			delete(s.receives, id)
			s.fail(w, &l, 400, err.Error())
			return
		}
		done, err := ses.receiver.Receive(pr, nil)
		l.Objects = len(pr.Info.Objects)
		if err != nil {
			delete(s.receives, id)
			s.fail(w, &l, 400, err.Error())
			return
		}
		l.Status = 200
		if abort {
			// the packfile was received and stored; the answer is lost and the session with it
			if done {
				s.applyUpdates(ses.updates)
			}
			delete(s.receives, id)
			l.Note = "aborted after processing"
			s.logReq(l)
			panic(http.ErrAbortHandler)
		}
		if !done {
			s.logReq(l)
			w.WriteHeader(http.StatusOK)
			return
		}
		s.applyUpdates(ses.updates)
		delete(s.receives, id)
		l.Note = "report"
		s.logReq(l)
		s.writeJSON(w, &payload.ReceivePackResponse{Updates: ses.updates})
		return
	}
	body, _ := io.ReadAll(r.Body)
	req := &payload.ReceivePackRequest{}
	if err := json.Unmarshal(body, req); err != nil {
		s.fail(w, &l, 400, "bad json: "+err.Error())
		return
	}
	l.Haves = len(req.TableHaves)
	if ses == nil {
		if len(req.Updates) == 0 {
			s.fail(w, &l, 400, "no updates")
			return
		}
		s.nextID++
		id = fmt.Sprintf("rp%d", s.nextID)
		ses = &receiveSession{updates: req.Updates}
		http.SetCookie(w, &http.Cookie{Name: "receive-pack-session-id", Value: id, Path: "/"})
		var expected [][]byte
		for name, u := range ses.updates {
			cur, err := ref.GetRef(s.RS, name)
			switch {
			case u.OldSum == nil && err == nil:
				u.ErrMsg = "remote ref updated since checkout"
			case u.OldSum != nil && (err != nil || !bytes.Equal(cur, (*u.OldSum)[:])):
				u.ErrMsg = "remote ref updated since checkout"
			}
			if u.ErrMsg == "" && u.Sum != nil && !objects.CommitExist(s.DB, (*u.Sum)[:]) {
				expected = append(expected, (*u.Sum)[:])
			}
		}
		if len(expected) == 0 {
			s.applyUpdates(ses.updates)
			l.Status = 200
			l.Note = "report without objects"
			s.logReq(l)
			s.writeJSON(w, &payload.ReceivePackResponse{Updates: ses.updates})
			return
		}
		ses.receiver = apiutils.NewObjectReceiver(s.DB, expected, logr.Discard())
		s.receives[id] = ses
	}
	var acks [][]byte
	for _, t := range req.TableHaves {
		if objects.TableExist(s.DB, (*t)[:]) {
			acks = append(acks, (*t)[:])
		}
	}
	l.Status = 200
	l.Note = fmt.Sprintf("table acks %d", len(acks))
	s.logReq(l)
	s.writeJSON(w, &payload.ReceivePackResponse{TableACKs: payload.BytesSliceToHexSlice(acks)})
}

func (s *Server) handleObjects(w http.ResponseWriter, r *http.Request) {
	s.mu.Lock()
	defer s.mu.Unlock()
	l := ReqLog{Method: r.Method, Path: r.URL.Path, Kind: "objects"}
	var buf bytes.Buffer
	pw, _ := packfile.NewPackfileWriter(&buf)
	sent := map[string]bool{}
	for _, h := range strings.Split(r.URL.Query().Get("tables"), ",") {
		if h == "" {
			continue
		}
		sum, err := hex.DecodeString(h)
		if err != nil {
			s.fail(w, &l, 400, "bad table sum")
			return
		}
		tbl, err := objects.GetTable(s.DB, sum)
		if err != nil {
			s.fail(w, &l, 404, "table not found")
			return
		}
		for _, b := range tbl.Blocks {
			if sent[string(b)] {
				continue
			}
			sent[string(b)] = true
			raw, err := objects.GetBlockBytes(s.DB, b)
			if err != nil {
				s.fail(w, &l, 500, err.Error())
				return
			}
			pw.WriteObject(packfile.ObjectBlock, raw)
			l.Objects++
		}
		var tb bytes.Buffer
		tbl.WriteTo(&tb)
		pw.WriteObject(packfile.ObjectTable, tb.Bytes())
		l.Objects++
	}
	l.Status = 200
	s.logReq(l)
	w.Header().Set("Content-Type", ctPackfile)
	w.WriteHeader(http.StatusOK)
	w.Write(buf.Bytes())
}
