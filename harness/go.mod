module verif

go 1.19

require (
	github.com/anishathalye/porcupine v1.3.0
	github.com/wrgl/wrgl v0.0.0
)

replace github.com/wrgl/wrgl => /repo
