package mon

import (
	"bytes"
	"fmt"
	"io"
	"os"
	"path/filepath"
	"runtime/debug"
	"sync"

	"github.com/spf13/viper"
	wrgl "github.com/wrgl/wrgl/cmd/wrgl"
	"github.com/wrgl/wrgl/pkg/local"
	"github.com/wrgl/wrgl/pkg/objects"
	"github.com/wrgl/wrgl/pkg/ref"
)

var cliMu sync.Mutex

// NewRepo initialises a repository (badger + sqlite) under root/.wrgl and sets user.name / user.email.
func NewRepo(root string) (string, error) {
	wrglDir := filepath.Join(root, ".wrgl")
	if err := os.MkdirAll(root, 0755); err != nil {
		return "", err
	}
	rd, err := local.NewRepoDir(wrglDir, "")
	if err != nil {
		return "", err
	}
	if err := rd.Init(); err != nil {
		return "", err
	}
	rd.Close()
	for _, kv := range [][2]string{{"user.email", "v@example.com"}, {"user.name", "Verif"}} {
		if _, err, p := Wrgl(wrglDir, nil, "config", "set", kv[0], kv[1]); err != nil || p != "" {
			return "", fmt.Errorf("config set: %v %s", err, p)
		}
	}
	return wrglDir, nil
}

// Wrgl runs one CLI command in-process (the real cobra command tree).
// Commands are serialised: the CLI keeps global state in viper.
func Wrgl(wrglDir string, stdin io.Reader, args ...string) (out string, err error, panicText string) {
	cliMu.Lock()
	defer cliMu.Unlock()
	defer func() {
		if r := recover(); r != nil {
			panicText = fmt.Sprintf("%v\n%s", r, debug.Stack())
		}
	}()
	viper.Set("wrgl_dir", wrglDir)
	cmd := wrgl.RootCmd()
	buf := &bytes.Buffer{}
	cmd.SetOut(buf)
	cmd.SetErr(buf)
	if stdin != nil {
		cmd.SetIn(stdin)
	}
	cmd.SetArgs(args)
	err = cmd.Execute()
	return buf.String(), err, ""
}

// OpenRepo opens the stores of a repository directory.
func OpenRepo(wrglDir string) (*local.RepoDir, error) {
	return local.NewRepoDir(wrglDir, "")
}

// RepoHandle bundles the opened stores of a repository directory.
type RepoHandle struct {
	RD *local.RepoDir
	DB objects.Store
	RS ref.Store
}

func OpenRepoHandle(wrglDir string) (*RepoHandle, error) {
	rd, err := local.NewRepoDir(wrglDir, "")
	if err != nil {
		return nil, err
	}
	db, err := rd.OpenObjectsStore()
	if err != nil {
		rd.Close()
		return nil, err
	}
	return &RepoHandle{RD: rd, DB: db, RS: rd.OpenRefStore()}, nil
}

func (h *RepoHandle) Close() {
	h.DB.Close()
	h.RD.Close()
}
