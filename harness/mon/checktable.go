package mon

import (
	"bytes"
	"context"
	"database/sql"
	"encoding/binary"
	"fmt"
	"sort"
	"sync"
	"sync/atomic"
	"time"

	"github.com/go-logr/logr"
	"github.com/klauspost/compress/s2"
	_ "github.com/mattn/go-sqlite3"
	"github.com/pckhoi/meow"
	"github.com/wrgl/wrgl/pkg/conf"
	"github.com/wrgl/wrgl/pkg/doctor"
	"github.com/wrgl/wrgl/pkg/objects"
	"github.com/wrgl/wrgl/pkg/ref"
	refsql "github.com/wrgl/wrgl/pkg/ref/sql"
)

// Issue is one failed clause of the table invariant.
type Issue struct {
	Clause string
	Detail string
}

func (i Issue) String() string { return i.Clause + ": " + i.Detail }

// TableContent is what CheckTable read back.
type TableContent struct {
	Table *objects.Table
	Rows  [][]string
}

// EncodeStrList is an independent encoder of the string-list format
// (uint32 count, then uint16 length + bytes per string), with int offsets.
func EncodeStrList(sl []string) []byte {
	n := 4
	for _, s := range sl {
		n += 2 + len(s)
	}
	b := make([]byte, n)
	binary.BigEndian.PutUint32(b, uint32(len(sl)))
	off := 4
	for _, s := range sl {
		binary.BigEndian.PutUint16(b[off:], uint16(len(s)))
		off += 2
		copy(b[off:], s)
		off += len(s)
	}
	return b
}

func pick(row []string, idx []uint32) []string {
	r := make([]string, len(idx))
	for i, u := range idx {
		r[i] = row[u]
	}
	return r
}

// KeyOf returns the key cells of a row (all cells when pk is empty).
func KeyOf(row []string, pk []uint32) []string {
	if len(pk) == 0 {
		return row
	}
	return pick(row, pk)
}

// CompareKeys compares two key tuples cell by cell in byte order.
func CompareKeys(a, b []string) int {
	for i := range a {
		if i >= len(b) {
			return 1
		}
		if c := bytes.Compare([]byte(a[i]), []byte(b[i])); c != 0 {
			return c
		}
	}
	if len(a) < len(b) {
		return -1
	}
	return 0
}

func hash16(b []byte) []byte {
	s := meow.Checksum(0, b)
	return s[:]
}

// CheckOpts selects optional clauses.
type CheckOpts struct {
	Doctor       bool // run doctor.Diagnose over a ref pointing at a commit of the table
	NoIndexBytes bool // skip byte-for-byte index recomputation (never set for producers under test)
}

// CheckTable is the C03 monitor: all structural clauses over a stored table.
// It returns the rows read back so that callers can apply their own oracle.
func CheckTable(db objects.Store, sum []byte, opts CheckOpts) (*TableContent, []Issue) {
	var issues []Issue
	add := func(clause, f string, a ...interface{}) {
		if len(issues) < 8 {
			issues = append(issues, Issue{clause, fmt.Sprintf(f, a...)})
		}
	}
	var tbl *objects.Table
	var err error
	func() {
		defer func() {
			if r := recover(); r != nil {
				err = fmt.Errorf("panic: %v", r)
			}
		}()
		tbl, err = objects.GetTable(db, sum)
	}()
	if err != nil {
		add("table-unreadable", "GetTable(%x): %v", sum, err)
		return nil, issues
	}
	tc := &TableContent{Table: tbl}
	nb := int((tbl.RowsCount + 254) / 255)
	if len(tbl.Blocks) != nb || len(tbl.BlockIndices) != nb {
		add("block-count", "RowsCount=%d wants %d blocks; have %d blocks, %d block indices", tbl.RowsCount, nb, len(tbl.Blocks), len(tbl.BlockIndices))
	}
	ncols := len(tbl.Columns)
	for _, k := range tbl.PK {
		if int(k) >= ncols {
			add("pk-out-of-range", "pk index %d >= %d columns", k, ncols)
			return tc, issues
		}
	}
	var prevKey []string
	havePrev := false
	total := 0
	var firstRows [][]string
	for bi, bsum := range tbl.Blocks {
		raw, err := db.Get(append([]byte("blk/"), bsum...))
		if err != nil {
			add("block-missing", "block %d (%x): %v", bi, bsum, err)
			firstRows = append(firstRows, nil)
			continue
		}
		content, err := s2.Decode(nil, raw)
		if err != nil {
			add("block-undecodable", "block %d (%x): s2: %v", bi, bsum, err)
			firstRows = append(firstRows, nil)
			continue
		}
		if !bytes.Equal(hash16(content), bsum) {
			add("block-hash", "block %d stored under %x but content hashes to %x", bi, bsum, hash16(content))
		}
		_, blk, err := objects.ReadBlockFrom(bytes.NewReader(content))
		if err != nil {
			add("block-undecodable", "block %d (%x): %v", bi, bsum, err)
			firstRows = append(firstRows, nil)
			continue
		}
		if len(blk) == 0 {
			add("block-size", "block %d is empty", bi)
			firstRows = append(firstRows, nil)
			continue
		}
		firstRows = append(firstRows, blk[0])
		if bi < len(tbl.Blocks)-1 && len(blk) != 255 {
			add("block-size", "block %d of %d has %d rows (must be 255)", bi, len(tbl.Blocks), len(blk))
		}
		if len(blk) > 255 {
			add("block-size", "block %d has %d rows", bi, len(blk))
		}
		for ri, row := range blk {
			if len(row) != ncols {
				add("row-width", "block %d row %d has %d cells, table has %d columns", bi, ri, len(row), ncols)
				continue
			}
			key := append([]string(nil), KeyOf(row, tbl.PK)...)
			if havePrev && CompareKeys(prevKey, key) >= 0 {
				add("key-order", "block %d row %d: key %q does not follow %q (strictly increasing required)", bi, ri, trunc(key), trunc(prevKey))
			}
			prevKey, havePrev = key, true
		}
		tc.Rows = append(tc.Rows, blk...)
		total += len(blk)

		// block index
		if bi >= len(tbl.BlockIndices) {
			continue
		}
		isum := tbl.BlockIndices[bi]
		iraw, err := db.Get(append([]byte("blkidx/"), isum...))
		if err != nil {
			add("block-index-missing", "block index %d (%x): %v", bi, isum, err)
			continue
		}
		icontent, err := s2.Decode(nil, iraw)
		if err != nil {
			add("block-index-undecodable", "block index %d: s2: %v", bi, err)
			continue
		}
		if !bytes.Equal(hash16(icontent), isum) {
			add("block-index-hash", "block index %d stored under %x but hashes to %x", bi, isum, hash16(icontent))
		}
		_, idx, err := objects.ReadBlockIndex(bytes.NewReader(icontent))
		if err != nil {
			add("block-index-undecodable", "block index %d: %v", bi, err)
			continue
		}
		if idx.Len() != len(blk) {
			add("block-index-entries", "block index %d has %d entries for %d rows", bi, idx.Len(), len(blk))
			continue
		}
		// expected entries from an independent encoder
		members := map[string]bool{}
		okRows := true
		for ri, row := range blk {
			if len(row) != ncols {
				okRows = false
				break
			}
			rowSum := hash16(EncodeStrList(row))
			keySum := rowSum
			if len(tbl.PK) > 0 {
				keySum = hash16(EncodeStrList(pick(row, tbl.PK)))
			}
			members[string(keySum)] = true
			want := append(append([]byte(nil), keySum...), rowSum...)
			if !bytes.Equal(idx.Rows[ri], want) {
				add("block-index-entry", "block %d row %d: index entry %x, expected keyhash|rowhash %x", bi, ri, idx.Rows[ri], want)
				break
			}
			pos, rs := idx.Get(keySum)
			if rs == nil || !bytes.Equal(rs, rowSum) {
				add("block-index-lookup", "block %d row %d: Get(keyhash) returned (%d,%x), expected (%d,%x)", bi, ri, pos, rs, ri, rowSum)
				break
			}
			if int(pos) != ri {
				// several rows can only share a key hash if keys repeat — a key-order violation reported above
				if !bytes.Equal(idx.Rows[pos][:16], keySum) {
					add("block-index-lookup", "block %d row %d: Get returned position %d", bi, ri, pos)
					break
				}
			}
		}
		if okRows {
			for k := 0; k < 64; k++ {
				h := hash16([]byte(fmt.Sprintf("non-member-%d-%d", bi, k)))
				if members[string(h)] {
					continue
				}
				if _, rs := idx.Get(h); rs != nil {
					add("block-index-lookup", "block %d: Get(non-member %x) returned a row", bi, h)
					break
				}
			}
			if !opts.NoIndexBytes {
				enc := objects.NewStrListEncoder(true)
				ref1, err := objects.IndexBlock(enc, meow.New(0), blk, tbl.PK)
				if err == nil {
					var buf bytes.Buffer
					ref1.WriteTo(&buf)
					if !bytes.Equal(buf.Bytes(), icontent) {
						add("block-index-bytes", "block %d: stored index differs from IndexBlock recomputed from the block", bi)
					}
				}
			}
		}
	}
	if total != int(tbl.RowsCount) {
		add("rows-count", "RowsCount=%d but %d rows present", tbl.RowsCount, total)
	}
	// table index
	if len(tbl.Blocks) > 0 || db.Exist(append([]byte("tblidx/"), sum...)) {
		tidx, err := objects.GetTableIndex(db, sum)
		if err != nil {
			add("table-index-missing", "GetTableIndex: %v", err)
		} else {
			if len(tidx) != len(tbl.Blocks) {
				add("table-index-entries", "table index has %d entries for %d blocks", len(tidx), len(tbl.Blocks))
			} else {
				for bi, fr := range firstRows {
					if fr == nil || len(fr) != ncols {
						continue
					}
					want := KeyOf(fr, tbl.PK)
					if CompareKeys(tidx[bi], want) != 0 || len(tidx[bi]) != len(want) {
						add("table-index-entry", "table index[%d]=%q but block %d starts with key %q", bi, trunc(tidx[bi]), bi, trunc(want))
						break
					}
				}
			}
		}
	}
	// profile
	if db.Exist(append([]byte("tblsum/"), sum...)) {
		prof, err := objects.GetTableProfile(db, sum)
		if err != nil {
			add("profile-undecodable", "GetTableProfile: %v", err)
		} else if prof.RowsCount != tbl.RowsCount {
			add("profile-rows", "profile RowsCount=%d, table RowsCount=%d", prof.RowsCount, tbl.RowsCount)
		}
	}
	if opts.Doctor && len(issues) == 0 {
		if iss := Diagnose(db, sum); iss != "" {
			add("doctor-issue", "%s", iss)
		}
	}
	return tc, issues
}

func trunc(sl []string) []string {
	r := make([]string, len(sl))
	for i, s := range sl {
		if len(s) > 40 {
			s = s[:40] + "…"
		}
		r[i] = s
	}
	return r
}

var memDBCounter int64

// NewMemRefStore opens a private in-memory SQLite ref store.
func NewMemRefStore() (ref.Store, *sql.DB, error) {
	n := atomic.AddInt64(&memDBCounter, 1)
	db, err := sql.Open("sqlite3", fmt.Sprintf("file:verif%d_%d.db?cache=shared&mode=memory", time.Now().UnixNano(), n))
	if err != nil {
		return nil, nil, err
	}
	for _, stmt := range refsql.CreateTableStmts {
		if _, err := db.Exec(stmt); err != nil {
			db.Close()
			return nil, nil, err
		}
	}
	return refsql.NewStore(db), db, nil
}

// NewFileRefStore opens (creating if needed) a file-backed SQLite ref store.
func NewFileRefStore(path string, create bool) (ref.Store, *sql.DB, error) {
	db, err := sql.Open("sqlite3", path)
	if err != nil {
		return nil, nil, err
	}
	if create {
		for _, stmt := range refsql.CreateTableStmts {
			if _, err := db.Exec(stmt); err != nil {
				db.Close()
				return nil, nil, err
			}
		}
	}
	return refsql.NewStore(db), db, nil
}

var doctorMu sync.Mutex

// Diagnose commits the table, points a ref at it and returns doctor's verdict ("" = no issue).
func Diagnose(db objects.Store, tableSum []byte) string {
	doctorMu.Lock()
	defer doctorMu.Unlock()
	rs, sdb, err := NewMemRefStore()
	if err != nil {
		return ""
	}
	defer sdb.Close()
	// keep the commit out of the store under observation: overlay store
	ov := &overlay{Store: db, extra: map[string][]byte{}}
	com := &objects.Commit{Table: tableSum, AuthorName: "v", AuthorEmail: "v@v", Time: time.Unix(1600000000, 0), Message: "check"}
	var buf bytes.Buffer
	com.WriteTo(&buf)
	csum, err := objects.SaveCommit(ov, buf.Bytes())
	if err != nil {
		return ""
	}
	if err := ref.CommitHead(rs, "chk", csum, com, nil); err != nil {
		return ""
	}
	d := doctor.NewDoctor(ov, rs, conf.User{Name: "v", Email: "v@v"}, logr.Discard())
	ctx, cancel := context.WithCancel(context.Background())
	defer cancel()
	ch, errCh, err := d.Diagnose(ctx, []string{"heads/"}, nil, nil)
	if err != nil {
		return "doctor error: " + err.Error()
	}
	var out []string
	for ri := range ch {
		for _, iss := range ri.Issues {
			out = append(out, iss.Err)
		}
	}
	if e, ok := <-errCh; ok && e != nil {
		return "doctor error: " + e.Error()
	}
	sort.Strings(out)
	if len(out) > 0 {
		return fmt.Sprintf("doctor reports: %v", out)
	}
	return ""
}

type overlay struct {
	objects.Store
	mu    sync.Mutex
	extra map[string][]byte
}

func (o *overlay) Set(k, v []byte) error {
	o.mu.Lock()
	defer o.mu.Unlock()
	o.extra[string(k)] = append([]byte(nil), v...)
	return nil
}
func (o *overlay) Get(k []byte) ([]byte, error) {
	o.mu.Lock()
	v, ok := o.extra[string(k)]
	o.mu.Unlock()
	if ok {
		return v, nil
	}
	return o.Store.Get(k)
}
func (o *overlay) Exist(k []byte) bool {
	o.mu.Lock()
	_, ok := o.extra[string(k)]
	o.mu.Unlock()
	return ok || o.Store.Exist(k)
}
