// Package mon holds the monitors and wrappers shared by the property checks.
package mon

import (
	"bytes"
	"fmt"
	"sort"
	"strings"
	"sync"
	"sync/atomic"

	"github.com/wrgl/wrgl/pkg/objects"
)

// MemStore is a mutex-protected in-memory objects.Store (wrgl's objmock.Store is
// a bare map and would itself race under the ingest worker pool).
// It can also count reads, record mutating calls and inject faults.
type MemStore struct {
	mu sync.Mutex
	m  map[string][]byte

	Reads  int64 // Get + Exist calls
	Writes int64 // Set + Delete + Clear calls

	// FailAt > 0: the FailAt-th mutating call returns ErrInjected (once).
	// StopAt > 0: the StopAt-th and every later mutating call fail ("process died").
	FailAt int64
	StopAt int64
	// FailKeyPrefix: Set on keys with this prefix fails when FailNth such call is reached.
	Log    []WriteRec
	Record bool
}

type WriteRec struct {
	N   int64
	Op  string
	Key string
	Val []byte
}

var ErrInjected = fmt.Errorf("injected store error")

func NewMemStore() *MemStore { return &MemStore{m: map[string][]byte{}} }

func (s *MemStore) Get(k []byte) ([]byte, error) {
	atomic.AddInt64(&s.Reads, 1)
	s.mu.Lock()
	defer s.mu.Unlock()
	if v, ok := s.m[string(k)]; ok {
		c := make([]byte, len(v))
		copy(c, v)
		return c, nil
	}
	return nil, objects.ErrKeyNotFound
}

func (s *MemStore) mutate(op string, k, v []byte) error {
	n := atomic.AddInt64(&s.Writes, 1)
	if s.FailAt > 0 && n == s.FailAt {
		return ErrInjected
	}
	if s.StopAt > 0 && n >= s.StopAt {
		return ErrInjected
	}
	if s.Record {
		s.Log = append(s.Log, WriteRec{N: n, Op: op, Key: string(k), Val: append([]byte(nil), v...)})
	}
	return nil
}

func (s *MemStore) Set(k, v []byte) error {
	s.mu.Lock()
	defer s.mu.Unlock()
	if err := s.mutate("set", k, v); err != nil {
		return err
	}
	c := make([]byte, len(v))
	copy(c, v)
	s.m[string(k)] = c
	return nil
}

func (s *MemStore) Delete(k []byte) error {
	s.mu.Lock()
	defer s.mu.Unlock()
	if err := s.mutate("delete", k, nil); err != nil {
		return err
	}
	delete(s.m, string(k))
	return nil
}

func (s *MemStore) Exist(k []byte) bool {
	atomic.AddInt64(&s.Reads, 1)
	s.mu.Lock()
	defer s.mu.Unlock()
	_, ok := s.m[string(k)]
	return ok
}

func (s *MemStore) Filter(prefix []byte) (map[string][]byte, error) {
	s.mu.Lock()
	defer s.mu.Unlock()
	m := map[string][]byte{}
	for k, v := range s.m {
		if strings.HasPrefix(k, string(prefix)) {
			m[k] = append([]byte(nil), v...)
		}
	}
	return m, nil
}

func (s *MemStore) FilterKey(prefix []byte) ([][]byte, error) {
	s.mu.Lock()
	defer s.mu.Unlock()
	keys := [][]byte{}
	for k := range s.m {
		if strings.HasPrefix(k, string(prefix)) {
			keys = append(keys, []byte(k))
		}
	}
	sort.Slice(keys, func(i, j int) bool { return bytes.Compare(keys[i], keys[j]) < 0 })
	return keys, nil
}

func (s *MemStore) Clear(prefix []byte) error {
	s.mu.Lock()
	defer s.mu.Unlock()
	if err := s.mutate("clear", prefix, nil); err != nil {
		return err
	}
	for k := range s.m {
		if strings.HasPrefix(k, string(prefix)) {
			delete(s.m, k)
		}
	}
	return nil
}

func (s *MemStore) Close() error { return nil }

// Snapshot returns a copy of the whole key → value map.
func (s *MemStore) Snapshot() map[string][]byte {
	s.mu.Lock()
	defer s.mu.Unlock()
	m := make(map[string][]byte, len(s.m))
	for k, v := range s.m {
		m[k] = append([]byte(nil), v...)
	}
	return m
}

// Clone returns an independent store with the same content (no faults, no log).
func (s *MemStore) Clone() *MemStore {
	return &MemStore{m: s.Snapshot()}
}

// FromSnapshot builds a store from a snapshot.
func FromSnapshot(m map[string][]byte) *MemStore {
	s := NewMemStore()
	for k, v := range m {
		s.m[k] = append([]byte(nil), v...)
	}
	return s
}

// Apply replays recorded writes onto the store (no fault logic).
func (s *MemStore) Apply(recs []WriteRec) {
	s.mu.Lock()
	defer s.mu.Unlock()
	for _, r := range recs {
		switch r.Op {
		case "set":
			s.m[r.Key] = append([]byte(nil), r.Val...)
		case "delete":
			delete(s.m, r.Key)
		case "clear":
			for k := range s.m {
				if strings.HasPrefix(k, r.Key) {
					delete(s.m, k)
				}
			}
		}
	}
}

func (s *MemStore) Len() int {
	s.mu.Lock()
	defer s.mu.Unlock()
	return len(s.m)
}

// SnapshotStore dumps any objects.Store.
func SnapshotStore(db objects.Store) map[string][]byte {
	m, _ := db.Filter(nil)
	if m == nil {
		m = map[string][]byte{}
	}
	return m
}

// KeysByPrefix counts keys per object kind prefix.
func KeysByPrefix(m map[string][]byte) map[string]int {
	r := map[string]int{}
	for k := range m {
		if i := strings.IndexByte(k, '/'); i > 0 {
			r[k[:i]]++
		}
	}
	return r
}
