package mon

import (
	"sync/atomic"
	"time"

	"github.com/google/uuid"
	"github.com/wrgl/wrgl/pkg/objects"
	"github.com/wrgl/wrgl/pkg/ref"
)

// Faults is a counter of store operations shared by a FaultObjStore and a
// FaultRefStore, with one injected fault: FailAt = the n-th operation returns
// an error (and is not executed); StopAt = the n-th and all later operations
// fail ("the process died there" for in-process code).
type Faults struct {
	N      int64
	FailAt int64
	StopAt int64
	Trace  []string
	Record bool
}

func (f *Faults) hit(op string) bool {
	n := atomic.AddInt64(&f.N, 1)
	if f.Record {
		f.Trace = append(f.Trace, op)
	}
	if f.FailAt > 0 && n == f.FailAt {
		return true
	}
	if f.StopAt > 0 && n >= f.StopAt {
		return true
	}
	return false
}

type FaultObjStore struct {
	S objects.Store
	F *Faults
}

func (s *FaultObjStore) Get(k []byte) ([]byte, error) {
	if s.F.hit("obj.Get") {
		return nil, ErrInjected
	}
	return s.S.Get(k)
}
func (s *FaultObjStore) Set(k, v []byte) error {
	if s.F.hit("obj.Set") {
		return ErrInjected
	}
	return s.S.Set(k, v)
}
func (s *FaultObjStore) Delete(k []byte) error {
	if s.F.hit("obj.Delete") {
		return ErrInjected
	}
	return s.S.Delete(k)
}
func (s *FaultObjStore) Exist(k []byte) bool {
	if s.F.hit("obj.Exist") {
		return false
	}
	return s.S.Exist(k)
}
func (s *FaultObjStore) Filter(p []byte) (map[string][]byte, error) {
	if s.F.hit("obj.Filter") {
		return nil, ErrInjected
	}
	return s.S.Filter(p)
}
func (s *FaultObjStore) FilterKey(p []byte) ([][]byte, error) {
	if s.F.hit("obj.FilterKey") {
		return nil, ErrInjected
	}
	return s.S.FilterKey(p)
}
func (s *FaultObjStore) Clear(p []byte) error {
	if s.F.hit("obj.Clear") {
		return ErrInjected
	}
	return s.S.Clear(p)
}
func (s *FaultObjStore) Close() error { return nil }

type FaultRefStore struct {
	S ref.Store
	F *Faults
}

func (s *FaultRefStore) SetWithLog(key string, val []byte, log *ref.Reflog) error {
	if s.F.hit("ref.SetWithLog " + key) {
		return ErrInjected
	}
	return s.S.SetWithLog(key, val, log)
}
func (s *FaultRefStore) Set(key string, val []byte) error {
	if s.F.hit("ref.Set " + key) {
		return ErrInjected
	}
	return s.S.Set(key, val)
}
func (s *FaultRefStore) Get(key string) ([]byte, error) {
	if s.F.hit("ref.Get " + key) {
		return nil, ErrInjected
	}
	return s.S.Get(key)
}
func (s *FaultRefStore) Delete(key string) error {
	if s.F.hit("ref.Delete " + key) {
		return ErrInjected
	}
	return s.S.Delete(key)
}
func (s *FaultRefStore) Filter(p, n []string) (map[string][]byte, error) {
	if s.F.hit("ref.Filter") {
		return nil, ErrInjected
	}
	return s.S.Filter(p, n)
}
func (s *FaultRefStore) FilterKey(p, n []string) ([]string, error) {
	if s.F.hit("ref.FilterKey") {
		return nil, ErrInjected
	}
	return s.S.FilterKey(p, n)
}
func (s *FaultRefStore) Rename(a, b string) error {
	if s.F.hit("ref.Rename") {
		return ErrInjected
	}
	return s.S.Rename(a, b)
}
func (s *FaultRefStore) Copy(a, b string) error {
	if s.F.hit("ref.Copy") {
		return ErrInjected
	}
	return s.S.Copy(a, b)
}
func (s *FaultRefStore) LogReader(key string) (ref.ReflogReader, error) {
	if s.F.hit("ref.LogReader") {
		return nil, ErrInjected
	}
	return s.S.LogReader(key)
}
func (s *FaultRefStore) NewTransaction(tx *ref.Transaction) (*uuid.UUID, error) {
	if s.F.hit("tx.New") {
		return nil, ErrInjected
	}
	return s.S.NewTransaction(tx)
}
func (s *FaultRefStore) GetTransaction(id uuid.UUID) (*ref.Transaction, error) {
	if s.F.hit("tx.Get") {
		return nil, ErrInjected
	}
	return s.S.GetTransaction(id)
}
func (s *FaultRefStore) UpdateTransaction(tx *ref.Transaction) error {
	if s.F.hit("tx.Update") {
		return ErrInjected
	}
	return s.S.UpdateTransaction(tx)
}
func (s *FaultRefStore) DeleteTransaction(id uuid.UUID) error {
	if s.F.hit("tx.Delete") {
		return ErrInjected
	}
	return s.S.DeleteTransaction(id)
}
func (s *FaultRefStore) GCTransactions(ttl time.Duration) ([]uuid.UUID, error) {
	if s.F.hit("tx.GC") {
		return nil, ErrInjected
	}
	return s.S.GCTransactions(ttl)
}
func (s *FaultRefStore) GetTransactionLogs(id uuid.UUID) (map[string]*ref.Reflog, error) {
	if s.F.hit("tx.Logs") {
		return nil, ErrInjected
	}
	return s.S.GetTransactionLogs(id)
}
func (s *FaultRefStore) ListTransactions(o, l int) ([]*ref.Transaction, error) {
	if s.F.hit("tx.List") {
		return nil, ErrInjected
	}
	return s.S.ListTransactions(o, l)
}
