package mon

import (
	"bytes"
	"time"

	"github.com/pckhoi/meow"
	"github.com/wrgl/wrgl/pkg/objects"
)

// BuildTableRaw stores the given row sequence as a table exactly as given
// (no sorting, no de-duplication), with the low-level Save* API. rowsCount < 0
// means "use the true count". Used to fabricate defective tables for doctor.
func BuildTableRaw(db objects.Store, cols []string, pk []uint32, rows [][]string, rowsCount int) ([]byte, error) {
	tbl := objects.NewTable(cols, pk)
	enc := objects.NewStrListEncoder(true)
	var tblIdx [][]string
	var bb []byte
	for off := 0; off < len(rows); off += 255 {
		end := off + 255
		if end > len(rows) {
			end = len(rows)
		}
		blk := rows[off:end]
		var buf bytes.Buffer
		if _, err := objects.WriteBlockTo(enc, &buf, blk); err != nil {
			return nil, err
		}
		var sum []byte
		var err error
		sum, bb, err = objects.SaveBlock(db, bb, buf.Bytes())
		if err != nil {
			return nil, err
		}
		idx, err := objects.IndexBlock(enc, meow.New(0), blk, pk)
		if err != nil {
			return nil, err
		}
		var ibuf bytes.Buffer
		idx.WriteTo(&ibuf)
		var isum []byte
		isum, bb, err = objects.SaveBlockIndex(db, bb, ibuf.Bytes())
		if err != nil {
			return nil, err
		}
		tbl.Blocks = append(tbl.Blocks, sum)
		tbl.BlockIndices = append(tbl.BlockIndices, isum)
		tblIdx = append(tblIdx, append([]string(nil), KeyOf(blk[0], pk)...))
	}
	if rowsCount < 0 {
		rowsCount = len(rows)
	}
	tbl.RowsCount = uint32(rowsCount)
	var buf bytes.Buffer
	if _, err := tbl.WriteTo(&buf); err != nil {
		return nil, err
	}
	sum, err := objects.SaveTable(db, buf.Bytes())
	if err != nil {
		return nil, err
	}
	buf.Reset()
	if _, err := objects.WriteBlockTo(enc, &buf, tblIdx); err != nil {
		return nil, err
	}
	if err := objects.SaveTableIndex(db, sum, buf.Bytes()); err != nil {
		return nil, err
	}
	return sum, nil
}

// SaveCommitObj writes a commit object.
func SaveCommitObj(db objects.Store, table []byte, parents [][]byte, msg string, t time.Time) ([]byte, *objects.Commit, error) {
	com := &objects.Commit{Table: table, AuthorName: "Verif", AuthorEmail: "v@example.com", Time: t, Message: msg, Parents: parents}
	var buf bytes.Buffer
	if _, err := com.WriteTo(&buf); err != nil {
		return nil, nil, err
	}
	sum, err := objects.SaveCommit(db, buf.Bytes())
	com.Sum = sum
	return sum, com, err
}
