package mon

import (
	"fmt"
	"sort"
	"strings"

	"github.com/wrgl/wrgl/pkg/objects"
	"github.com/wrgl/wrgl/pkg/ref"
)

// RepoFacts is what CheckRepo read.
type RepoFacts struct {
	Refs    map[string][]byte
	Commits int
	Tables  int
}

// CheckRepo is the repository invariant after a crash or fault:
// every ref resolves to a readable commit; every stored commit has all its parents;
// every table that the store reports as present passes the structural monitor;
// optionally heads/* point at commits whose table is present.
func CheckRepo(db objects.Store, rs ref.Store, headsNeedTable bool) (*RepoFacts, []Issue) {
	var issues []Issue
	add := func(c, f string, a ...interface{}) {
		if len(issues) < 6 {
			issues = append(issues, Issue{c, fmt.Sprintf(f, a...)})
		}
	}
	facts := &RepoFacts{}
	refs, err := ref.ListAllRefs(rs)
	if err != nil {
		add("refs-unreadable", "%v", err)
		return facts, issues
	}
	facts.Refs = refs
	names := make([]string, 0, len(refs))
	for n := range refs {
		names = append(names, n)
	}
	sort.Strings(names)
	for _, n := range names {
		com, err := objects.GetCommit(db, refs[n])
		if err != nil {
			add("ref-dangling", "ref %s points at %x: %v", n, refs[n], err)
			continue
		}
		if headsNeedTable && strings.HasPrefix(n, "heads/") && !objects.TableExist(db, com.Table) {
			add("head-without-table", "branch %s points at commit %x whose table %x is absent", n, refs[n], com.Table)
		}
	}
	keys, err := objects.GetAllCommitKeys(db)
	if err != nil {
		add("commits-unreadable", "%v", err)
		return facts, issues
	}
	facts.Commits = len(keys)
	for _, k := range keys {
		com, err := objects.GetCommit(db, k)
		if err != nil {
			add("commit-unreadable", "commit %x: %v", k, err)
			continue
		}
		for _, p := range com.Parents {
			if !objects.CommitExist(db, p) {
				add("commit-without-parent", "commit %x is stored but its parent %x is not", k, p)
			}
		}
	}
	tkeys, err := objects.GetAllTableKeys(db)
	if err != nil {
		add("tables-unreadable", "%v", err)
		return facts, issues
	}
	facts.Tables = len(tkeys)
	for _, t := range tkeys {
		if _, is := CheckTable(db, t, CheckOpts{}); len(is) > 0 {
			add("present-table-unusable/"+is[0].Clause, "table %x is reported present but: %s", t, is[0].Detail)
		}
	}
	return facts, issues
}

// RefOutcome summarises what each ref points at, ignoring timestamps and hence commit ids:
// table id and the shape of the history (tables of all ancestors, parents-first).
func RefOutcome(db objects.Store, rs ref.Store) (map[string]string, error) {
	refs, err := ref.ListAllRefs(rs)
	if err != nil {
		return nil, err
	}
	out := map[string]string{}
	for n, sum := range refs {
		out[n] = shapeOf(db, sum, map[string]string{})
	}
	return out, nil
}

func shapeOf(db objects.Store, sum []byte, memo map[string]string) string {
	if s, ok := memo[string(sum)]; ok {
		return s
	}
	com, err := objects.GetCommit(db, sum)
	if err != nil {
		return "?"
	}
	var ps []string
	for _, p := range com.Parents {
		ps = append(ps, shapeOf(db, p, memo))
	}
	s := fmt.Sprintf("%x(%s)", com.Table[:4], strings.Join(ps, ","))
	memo[string(sum)] = s
	return s
}
