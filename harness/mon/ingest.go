package mon

import (
	"bytes"
	"fmt"
	"io"
	"runtime/debug"

	"github.com/go-logr/logr"
	"github.com/wrgl/wrgl/pkg/ingest"
	"github.com/wrgl/wrgl/pkg/objects"
	"github.com/wrgl/wrgl/pkg/sorter"
)

type IngestCfg struct {
	PK      []string
	Delim   rune
	RunSize uint64 // 0 = automatic
	Workers int    // as passed to WithNumWorkers (wrgl runs max(1, Workers-2) goroutines)
}

// Ingest runs ingest.IngestTable on the real code. A panic on the calling
// goroutine is recovered and returned as text.
func Ingest(db objects.Store, csvBytes []byte, cfg IngestCfg) (sum []byte, err error, panicText string) {
	defer func() {
		if r := recover(); r != nil {
			panicText = fmt.Sprintf("%v\n%s", r, debug.Stack())
		}
	}()
	opts := []sorter.SorterOption{}
	if cfg.RunSize > 0 {
		opts = append(opts, sorter.WithRunSize(cfg.RunSize))
	}
	if cfg.Delim != 0 {
		opts = append(opts, sorter.WithDelimiter(cfg.Delim))
	}
	s, err := sorter.NewSorter(opts...)
	if err != nil {
		return nil, err, ""
	}
	w := cfg.Workers
	if w == 0 {
		w = 1
	}
	sum, err = ingest.IngestTable(db, s, io.NopCloser(bytes.NewReader(csvBytes)), cfg.PK, logr.Discard(), ingest.WithNumWorkers(w))
	return sum, err, ""
}
