package mon

import (
	"bytes"
	"fmt"
	"io"
	"os"
	"path/filepath"
	"runtime/debug"
	"sort"
	"strings"

	"github.com/go-logr/logr"
	"github.com/wrgl/wrgl/pkg/ingest"
	"github.com/wrgl/wrgl/pkg/objects"
	"github.com/wrgl/wrgl/pkg/sorter"
)

type IngestCfg struct {
	PK      []string
	Delim   rune
	RunSize uint64 // 0 = automatic
	Workers int    // as passed to WithNumWorkers (wrgl runs max(1, Workers-2) goroutines)
	// SpillFault > 0: when the CSV has been read completely (the sorter closes its input then, before it merges its spill
	// files), the SpillFault-th spill file (mod their number) is cut in the middle of the length prefix of its last cell - a disk
	// that returns a short file.
	SpillFault int
	Faulted    *string // receives the name of the damaged file, "" if nothing had been spilled
}

type closeHook struct {
	io.Reader
	f func()
}

func (c *closeHook) Close() error { c.f(); return nil }

// cutInsideLastLengthPrefix parses a spill file (rows as string lists: uint32 count, then per cell a uint16 length and
// the bytes) and returns the size that keeps everything up to the first byte of the last cell's length prefix: a reader
// then finds half a length field, which cannot be mistaken for the end of the data (0 = file not understood).
func cutInsideLastLengthPrefix(path string) int {
	b, err := os.ReadFile(path)
	if err != nil {
		return 0
	}
	off, lastPrefix := 0, -1
	for off+4 <= len(b) {
		n := int(uint32(b[off])<<24 | uint32(b[off+1])<<16 | uint32(b[off+2])<<8 | uint32(b[off+3]))
		off += 4
		for i := 0; i < n; i++ {
			if off+2 > len(b) {
				return 0
			}
			l := int(b[off])<<8 | int(b[off+1])
			lastPrefix = off
			off += 2 + l
			if off > len(b) {
				return 0
			}
		}
	}
	if off != len(b) || lastPrefix < 0 {
		return 0
	}
	return lastPrefix + 1
}

// spillFiles lists the sorter's chunk files in this process's temp directory.
func spillFiles() []string {
	ents, _ := os.ReadDir(os.TempDir())
	var out []string
	for _, e := range ents {
		if strings.HasPrefix(e.Name(), "sorted_chunk_") {
			out = append(out, filepath.Join(os.TempDir(), e.Name()))
		}
	}
	sort.Strings(out)
	return out
}

// Ingest runs ingest.IngestTable on the real code. A panic on the calling
// goroutine is recovered and returned as text.
func Ingest(db objects.Store, csvBytes []byte, cfg IngestCfg) (sum []byte, err error, panicText string) {
	defer func() {
		if r := recover(); r != nil {
			panicText = fmt.Sprintf("%v\n%s", r, debug.Stack())
		}
	}()
	opts := []sorter.SorterOption{}
	if cfg.RunSize > 0 {
		opts = append(opts, sorter.WithRunSize(cfg.RunSize))
	}
	if cfg.Delim != 0 {
		opts = append(opts, sorter.WithDelimiter(cfg.Delim))
	}
	s, err := sorter.NewSorter(opts...)
	if err != nil {
		return nil, err, ""
	}
	w := cfg.Workers
	if w == 0 {
		w = 1
	}
	var in io.ReadCloser = io.NopCloser(bytes.NewReader(csvBytes))
	if cfg.SpillFault > 0 {
		before := map[string]bool{}
		for _, f := range spillFiles() {
			before[f] = true
		}
		in = &closeHook{Reader: bytes.NewReader(csvBytes), f: func() {
			var mine []string
			for _, f := range spillFiles() {
				if !before[f] {
					mine = append(mine, f)
				}
			}
			if len(mine) == 0 {
				return
			}
			victim := mine[cfg.SpillFault%len(mine)]
			if cut := cutInsideLastLengthPrefix(victim); cut > 0 {
				if os.Truncate(victim, int64(cut)) == nil && cfg.Faulted != nil {
					*cfg.Faulted = filepath.Base(victim)
				}
			}
		}}
	}
	sum, err = ingest.IngestTable(db, s, in, cfg.PK, logr.Discard(), ingest.WithNumWorkers(w))
	return sum, err, ""
}
