package mon

import (
	"github.com/dgraph-io/badger/v3"
	"github.com/wrgl/wrgl/pkg/objects"
	objbadger "github.com/wrgl/wrgl/pkg/objects/badger"
)

// OpenBadger opens a real badger-backed object store in dir.
func OpenBadger(dir string) (objects.Store, error) {
	opts := badger.DefaultOptions(dir).WithLoggingLevel(badger.ERROR).WithNumGoroutines(2).WithNumCompactors(2).
		WithMemTableSize(8 << 20).WithValueLogFileSize(16 << 20).WithBlockCacheSize(1 << 20).WithIndexCacheSize(1 << 20)
	db, err := badger.Open(opts)
	if err != nil {
		return nil, err
	}
	return objbadger.NewStore(db), nil
}
