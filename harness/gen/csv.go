// Package gen holds the seeded generators shared by the checks.
package gen

import (
	"bytes"
	"encoding/csv"
	"fmt"
	"math/rand"
	"sort"
	"strings"
)

type Table struct {
	Cols []string
	Rows [][]string
}

func (t *Table) Clone() *Table {
	c := &Table{Cols: append([]string(nil), t.Cols...)}
	for _, r := range t.Rows {
		c.Rows = append(c.Rows, append([]string(nil), r...))
	}
	return c
}

// CellStyle selects the cell alphabet.
type CellStyle int

const (
	CellSimple  CellStyle = iota // short lowercase/digits
	CellTiny                     // 1-2 letters from a 3-letter alphabet (forces ties)
	CellHostile                  // quotes, commas, CR, LF, NUL, invalid UTF-8, empty, long runs
)

var hostileBits = []string{"", "", "\"", ",", "\n", "\r", "\r\n", "\x00", "\xff", "\xfe\xff", "é", "日本", " ", "\t", "|", ";", "a", "b", "0", "''", "\"\"", "a,b", "x\ny", "\xc3", "\xf0\x9f"}

func Cell(rng *rand.Rand, style CellStyle) string {
	switch style {
	case CellTiny:
		n := rng.Intn(3)
		b := make([]byte, n)
		for i := range b {
			b[i] = "ab\x00"[rng.Intn(3)]
		}
		return string(b)
	case CellHostile:
		switch rng.Intn(10) {
		case 0:
			return ""
		case 1:
			return strings.Repeat(hostileBits[rng.Intn(len(hostileBits))], rng.Intn(40))
		default:
			n := 1 + rng.Intn(5)
			var sb strings.Builder
			for i := 0; i < n; i++ {
				sb.WriteString(hostileBits[rng.Intn(len(hostileBits))])
			}
			return sb.String()
		}
	default:
		n := 1 + rng.Intn(8)
		b := make([]byte, n)
		for i := range b {
			b[i] = "abcdefghijklmnopqrstuvwxyz0123456789"[rng.Intn(36)]
		}
		return string(b)
	}
}

func Cols(n int) []string {
	c := make([]string, n)
	for i := range c {
		c[i] = fmt.Sprintf("c%d", i)
	}
	return c
}

// Opts for GenTable.
type Opts struct {
	Rows      int
	NCols     int
	Style     CellStyle
	PK        []int   // key column indices (for uniqueness / duplicate control)
	UniqueKey bool    // make key tuples unique
	DupRate   float64 // probability that a row reuses an earlier key (when !UniqueKey)
	EmptyKey  bool    // include a row whose whole key is empty
	AllEmpty  bool    // include an all-empty row
}

func GenTable(rng *rand.Rand, o Opts) *Table {
	t := &Table{Cols: Cols(o.NCols)}
	keyIdx := o.PK
	if len(keyIdx) == 0 {
		keyIdx = make([]int, o.NCols)
		for i := range keyIdx {
			keyIdx[i] = i
		}
	}
	seen := map[string]bool{}
	keyOf := func(r []string) string {
		var sb strings.Builder
		for _, i := range keyIdx {
			sb.WriteString(fmt.Sprintf("%d:", len(r[i])))
			sb.WriteString(r[i])
		}
		return sb.String()
	}
	for len(t.Rows) < o.Rows {
		r := make([]string, o.NCols)
		for i := range r {
			r[i] = Cell(rng, o.Style)
		}
		special := false
		if o.EmptyKey && len(t.Rows) == o.Rows/2 {
			for _, i := range keyIdx {
				r[i] = ""
			}
			special = true
		}
		if o.AllEmpty && len(t.Rows) == o.Rows/3 {
			for i := range r {
				r[i] = ""
			}
			special = true
		}
		if !o.UniqueKey && len(t.Rows) > 0 && rng.Float64() < o.DupRate {
			src := t.Rows[rng.Intn(len(t.Rows))]
			for _, i := range keyIdx {
				r[i] = src[i]
			}
		}
		k := keyOf(r)
		if o.UniqueKey && seen[k] {
			if special {
				// special key already present: fall back to a random row
				o.EmptyKey, o.AllEmpty = false, false
				continue
			}
			// extend a key cell to make it unique
			r[keyIdx[rng.Intn(len(keyIdx))]] += fmt.Sprintf("~%d", len(t.Rows))
			k = keyOf(r)
			if seen[k] {
				continue
			}
		}
		seen[k] = true
		t.Rows = append(t.Rows, r)
	}
	return t
}

// ToCSV serialises with encoding/csv (trusted) using the given delimiter.
func ToCSV(t *Table, delim rune) []byte {
	var buf bytes.Buffer
	w := csv.NewWriter(&buf)
	if delim != 0 {
		w.Comma = delim
	}
	w.Write(t.Cols)
	for _, r := range t.Rows {
		w.Write(r)
	}
	w.Flush()
	return buf.Bytes()
}

// ParseCSV is the oracle's view of what the file says: encoding/csv over the exact bytes.
func ParseCSV(b []byte, delim rune) (cols []string, rows [][]string, err error) {
	r := csv.NewReader(bytes.NewReader(b))
	if delim != 0 {
		r.Comma = delim
	}
	all, err := r.ReadAll()
	if err != nil {
		return nil, nil, err
	}
	if len(all) == 0 {
		return nil, nil, fmt.Errorf("no header")
	}
	return all[0], all[1:], nil
}

// Normalize returns the table a CSV reader sees, taken to a fixed point: encoding/csv drops a CR
// before a LF inside a quoted cell, so "\r\r\n" needs two passes before writing and reading agree.
func Normalize(t *Table) *Table {
	for i := 0; i < 8; i++ {
		cols, rows, err := ParseCSV(ToCSV(t, 0), 0)
		if err != nil {
			return t
		}
		n := &Table{Cols: cols, Rows: rows}
		same := len(n.Rows) == len(t.Rows) && strings.Join(n.Cols, "\x00") == strings.Join(t.Cols, "\x00")
		for j := 0; same && j < len(rows); j++ {
			same = strings.Join(rows[j], "\x00") == strings.Join(t.Rows[j], "\x00")
		}
		t = n
		if same {
			break
		}
	}
	return t
}

func keyString(row []string, pk []int) string {
	var sb strings.Builder
	for _, i := range pk {
		sb.WriteString(fmt.Sprintf("%d:", len(row[i])))
		sb.WriteString(row[i])
	}
	return sb.String()
}

func allIdx(n int) []int {
	r := make([]int, n)
	for i := range r {
		r[i] = i
	}
	return r
}

// ModelTable is M(rows, pk): distinct key tuples ascending (bytewise per cell),
// with all input rows carrying each key.
type ModelTable struct {
	PK    []int
	Keys  [][]string            // ascending
	ByKey map[string][][]string // keyString → candidate rows
	Dups  int                   // number of rows beyond the first per key
}

func cmpTuple(a, b []string) int {
	for i := range a {
		if c := strings.Compare(a[i], b[i]); c != 0 {
			return c
		}
	}
	return 0
}

func Model(rows [][]string, pk []int, ncols int) *ModelTable {
	if len(pk) == 0 {
		pk = allIdx(ncols)
	}
	m := &ModelTable{PK: pk, ByKey: map[string][][]string{}}
	for _, r := range rows {
		k := keyString(r, pk)
		if _, ok := m.ByKey[k]; !ok {
			key := make([]string, len(pk))
			for i, j := range pk {
				key[i] = r[j]
			}
			m.Keys = append(m.Keys, key)
		} else {
			m.Dups++
		}
		m.ByKey[k] = append(m.ByKey[k], r)
	}
	sort.Slice(m.Keys, func(i, j int) bool { return cmpTuple(m.Keys[i], m.Keys[j]) < 0 })
	return m
}

func rowsEqual(a, b []string) bool {
	if len(a) != len(b) {
		return false
	}
	for i := range a {
		if a[i] != b[i] {
			return false
		}
	}
	return true
}

// Compare checks got (rows read back, in stored order) against the model:
// same key sequence, each row equal to some input row carrying that key.
// Returns "" or a (clause, detail) pair.
func (m *ModelTable) Compare(got [][]string) (clause, detail string) {
	if len(got) != len(m.Keys) {
		// find the first missing / extra key for the detail
		gotKeys := map[string]int{}
		for _, r := range got {
			if len(r) > maxIdx(m.PK) {
				gotKeys[keyString(r, m.PK)]++
			}
		}
		for _, k := range m.Keys {
			ks := keyString(k, allIdx(len(k)))
			if gotKeys[ks] == 0 {
				return "row-missing", fmt.Sprintf("stored %d rows, expected %d distinct keys; key %q absent", len(got), len(m.Keys), short(k))
			}
		}
		for ks, n := range gotKeys {
			if n > 1 {
				return "row-duplicated", fmt.Sprintf("stored %d rows, expected %d; a key occurs %d times (%q)", len(got), len(m.Keys), n, ks)
			}
		}
		return "row-count", fmt.Sprintf("stored %d rows, expected %d distinct keys", len(got), len(m.Keys))
	}
	for i, r := range got {
		if len(r) <= maxIdx(m.PK) {
			return "row-width", fmt.Sprintf("row %d has %d cells", i, len(r))
		}
		key := make([]string, len(m.PK))
		for j, c := range m.PK {
			key[j] = r[c]
		}
		if cmpTuple(key, m.Keys[i]) != 0 {
			if _, ok := m.ByKey[keyString(r, m.PK)]; !ok {
				return "row-altered", fmt.Sprintf("row %d carries key %q which no input row has (expected key %q)", i, short(key), short(m.Keys[i]))
			}
			return "row-order", fmt.Sprintf("row %d has key %q, expected %q (ascending byte order of the key)", i, short(key), short(m.Keys[i]))
		}
		ok := false
		for _, cand := range m.ByKey[keyString(r, m.PK)] {
			if rowsEqual(cand, r) {
				ok = true
				break
			}
		}
		if !ok {
			return "row-altered", fmt.Sprintf("row %d with key %q = %q equals no input row with that key (e.g. %q)", i, short(key), short(r), short(m.ByKey[keyString(r, m.PK)][0]))
		}
	}
	return "", ""
}

func maxIdx(pk []int) int {
	m := -1
	for _, i := range pk {
		if i > m {
			m = i
		}
	}
	return m
}

func short(sl []string) []string {
	r := make([]string, len(sl))
	for i, s := range sl {
		if len(s) > 32 {
			s = fmt.Sprintf("%s…(%dB)", s[:32], len(s))
		}
		r[i] = s
	}
	return r
}

// Shuffle returns a permuted copy of the rows.
func Shuffle(rng *rand.Rand, rows [][]string) [][]string {
	r := append([][]string(nil), rows...)
	rng.Shuffle(len(r), func(i, j int) { r[i], r[j] = r[j], r[i] })
	return r
}

// PKChoice returns a seeded key choice: subset and order of <=3 columns, possibly none.
func PKChoice(rng *rand.Rand, ncols int) []int {
	switch rng.Intn(6) {
	case 0:
		return nil
	case 1, 2:
		return []int{rng.Intn(ncols)}
	default:
		n := 2 + rng.Intn(2)
		if n > ncols {
			n = ncols
		}
		p := rng.Perm(ncols)[:n]
		return p
	}
}

func ColNames(cols []string, idx []int) []string {
	r := make([]string, len(idx))
	for i, j := range idx {
		r[i] = cols[j]
	}
	return r
}
