// vcheck is both the supervisor and the worker of every property check.
package main

import (
	"encoding/json"
	"fmt"
	"os"

	"verif/fw"
	_ "verif/props"
)

func usage() {
	fmt.Fprintf(os.Stderr, "usage: vcheck run <id> quick|thorough | vcheck replay <id> <path> | vcheck worker <id> <cases> <obs> | vcheck list\n")
	os.Exit(2)
}

func main() {
	if len(os.Args) < 2 {
		usage()
	}
	switch os.Args[1] {
	case "list":
		for _, id := range fw.IDs() {
			fmt.Println(id)
		}
	case "cases":
		// prints the case list of a check (debugging aid): vcheck cases <id> <tier>
		if len(os.Args) < 4 {
			usage()
		}
		p := fw.Get(os.Args[2])
		if p == nil {
			usage()
		}
		seed := int64(1)
		if s := os.Getenv("VERIF_SEED"); s != "" {
			fmt.Sscan(s, &seed)
		}
		for _, c := range p.Gen(os.Args[3], seed) {
			b, _ := json.Marshal(c)
			fmt.Println(string(b))
		}
	case "run":
		if len(os.Args) < 4 {
			usage()
		}
		tier := os.Args[3]
		if t := os.Getenv("VERIF_TIER"); t == "quick" || t == "thorough" {
			tier = t
		}
		if tier != "quick" && tier != "thorough" {
			usage()
		}
		os.Exit(fw.SuperMain(os.Args[2], tier, nil))
	case "replay":
		if len(os.Args) < 4 {
			usage()
		}
		b, err := os.ReadFile(os.Args[3])
		if err != nil {
			fmt.Fprintln(os.Stderr, err)
			os.Exit(2)
		}
		var rep struct {
			Case *fw.Case `json:"case"`
		}
		if err := json.Unmarshal(b, &rep); err != nil || rep.Case == nil {
			fmt.Fprintln(os.Stderr, "bad replay file")
			os.Exit(2)
		}
		tier := os.Getenv("VERIF_TIER")
		if tier == "" {
			tier = "quick"
		}
		os.Exit(fw.SuperMain(os.Args[2], tier, rep.Case))
	case "worker":
		if len(os.Args) < 5 {
			usage()
		}
		os.Exit(fw.WorkerMain(os.Args[2], os.Args[3], os.Args[4]))
	default:
		usage()
	}
}
